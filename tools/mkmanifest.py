#!/usr/bin/env python3
"""Regenerates /verif/MANIFEST.json from the table below (single source of truth)."""
import json, os, subprocess
V = os.path.dirname(os.path.dirname(os.path.abspath(__file__)))
props = [json.loads(l) for l in open(os.path.join(V, 'properties.jsonl'))]
ids = [p['id'] for p in props]

# id -> (category, technique, level text, level note, design_ref, engine)
E1 = "E1 input-space enumerator"
E2 = "E2 sequence explorer"
E3 = "E3 environment-answer enumerator"
E4 = "E4 schedule explorer"
claimed = {}
def claim(i, cat, tech, text, note, ref, engine):
    claimed[i] = dict(cat=cat, tech=tech, text=text, note=note, ref=ref, engine=engine)

TRUST = "Trusted base: the harness (generators, reference model in harness/model, observer in harness/obs), Go toolchain, roaring/vellum/zstd. Verdict is bounded: no violation inside the enumerated scope (DESIGN.md 4, 9)."

exec(open(os.path.join(V, 'tools', 'claims.py')).read())

hooks_commits = subprocess.run(['git', '-C', '/repo', 'log', '--format=%h %s'], capture_output=True, text=True).stdout.splitlines()
hook_commits = [l.split()[0] for l in hooks_commits if 'verif hook' in l]

m = {
 "version": 1,
 "setup_cmd": "bin/setup.sh",
 "hooks": {
  "guard": "verif",
  "enable": "go build -tags verif (harness module replaces github.com/blugelabs/ice/v2 => /repo); scheduling points/shims are generated from the current tree at check time by vinstr/ (typed AST instrumenter) and delivered with -overlay, never committed (full instrumentation for C09/C12/C14/C19; for the other checks only the sync.Pool shims: deterministic pools emptied per case)",
  "baseline_off_cmd": "cd /repo && GOFLAGS=-mod=mod GOPROXY=off GOSUMDB=off GOTOOLCHAIN=local go test -json -vet=off -count=1 -timeout 25m ./...",
  "source_commits": hook_commits,
  "add_only": True,
 },
 "engines": [
  {"name": E1, "path": "harness/explore, harness/gen", "serves_properties": [i for i in ids if i in claimed and claimed[i]['engine'].startswith('E1')], "kind_free_text": "exhaustive enumeration of finite input scopes on the real code, compared with a reference model, sharded over 16 worker processes"},
  {"name": E2, "path": "harness/explore, harness/props", "serves_properties": [i for i in ids if i in claimed and claimed[i]['engine'].startswith('E2')], "kind_free_text": "explicit-state BFS over the real object's private state (verif hooks dump it) / path enumeration of operation sequences"},
  {"name": E3, "path": "harness/props", "serves_properties": [i for i in ids if i in claimed and claimed[i]['engine'].startswith('E3')], "kind_free_text": "one environment deviation per run at every possible index (writer byte offset, storage read, channel close point)"},
  {"name": E4, "path": "harness/verifrt_src, vinstr/ (typed AST instrumenter)", "serves_properties": [i for i in ids if i in claimed and claimed[i]['engine'].startswith('E4')], "kind_free_text": "cooperative scheduler + preemption-bounded DFS + happens-before monitor over automatically instrumented ice sources"},
 ],
 "checks": [],
 "notes": "All checks rebuild from /repo's current working tree (bin/check.sh). See DESIGN.md.",
 "not_applicable": [],
}
for i in ids:
    if i in claimed:
        c = claimed[i]
        m["checks"].append({
         "property_id": i,
         "quick_cmd": f"bin/check.sh {i} quick",
         "thorough_cmd": f"bin/check.sh {i} thorough",
         "evidence_file": f"evidence/{i}.json",
         "replay_cmd_template": f"bin/check.sh {i} --replay {{path}}",
         "engine": c['engine'],
         "level_claimed": {"category": c['cat'], "text": c['text'], "design_ref": c['ref']},
         "level_note": c['note'],
         "technique": c['tech'],
        })
    else:
        m["not_applicable"].append({"property_id": i, "reason": NOT_YET.get(i, "check not built yet in this round (planned in DESIGN.md section 5); not claimed until it exists and has been shown to detect a seeded change")})
json.dump(m, open(os.path.join(V, 'MANIFEST.json'), 'w'), indent=1)
print("claimed:", sorted(claimed), "unclaimed:", [x['property_id'] for x in m['not_applicable']])
