#!/opt/veriftools/pyvenv/bin/python
import json, jsonschema, glob, sys
V='/verif'
jsonschema.validate(json.load(open(V+'/MANIFEST.json')), json.load(open('/root/.vp/MANIFEST.schema.json')))
es=json.load(open('/root/.vp/EVIDENCE.schema.json'))
bad=0
for f in sorted(glob.glob(V+'/evidence/*.json')):
    try:
        jsonschema.validate(json.load(open(f)), es)
    except Exception as e:
        bad+=1; print("INVALID", f, str(e)[:300])
print("manifest valid; evidence files:", len(glob.glob(V+'/evidence/*.json')), "invalid:", bad)
sys.exit(1 if bad else 0)
