#!/bin/bash
# tools/seedsall.sh [name-prefix]
# Regression over the kept seeds: applies each seeded/<name>/patch.diff to $VERIF_REPO's working
# tree (default /repo), runs the quick check of every property recorded as DETECTED in its
# meta.json, restores the tree. Prints one line per (seed, property); exit 1 if any is not detected.
set -u
. "$(dirname "${BASH_SOURCE[0]}")/../bin/env.sh"
cd "$VERIF_DIR"
R="$VERIF_REPO"
[ -n "$(git -C "$R" status --porcelain)" ] && { echo "$R working tree not clean"; exit 2; }
bad=0
for d in seeded/${1:-}*/; do
  name=$(basename "$d")
  [ -f "$d/patch.diff" ] || continue
  props=$(jq -r '.checks_run[] | select(.verdict=="DETECTED") | .property' "$d/meta.json" | sort -u)
  if ! git -C "$R" apply "$VERIF_DIR/$d/patch.diff" 2>/dev/null; then echo "$name PATCH-DOES-NOT-APPLY"; bad=1; continue; fi
  for p in $props; do
    out=$(bin/check.sh "$p" quick 2>&1); rc=$?
    v=MISSED; [ $rc -eq 1 ] && echo "$out" | grep -q "^VIOLATION property=$p " && v=DETECTED; [ $rc -eq 2 ] && v=HARNESS-ERROR
    [ "$v" = DETECTED ] || bad=1
    echo "$name $p $v $(echo "$out" | grep -m1 "signature:" | sed 's/^ *signature: //')"
  done
  git -C "$R" checkout -- . ; git -C "$R" clean -fdq
done
exit $bad
