#!/bin/bash
# tools/runall.sh [quick|thorough]  - runs every registered check in order and prints one line each
cd "$(dirname "${BASH_SOURCE[0]}")/.."
tier="${1:-quick}"
worst=0
for id in $(jq -r '.checks[].property_id' MANIFEST.json); do
  out=$(bin/check.sh "$id" "$tier" 2>&1); rc=$?
  echo "rc=$rc $(echo "$out" | grep "^$id $tier:" | tail -1)"
  if [ $rc -ne 0 ]; then echo "$out" | grep -v "^  " | head -5; [ $rc -gt $worst ] && worst=$rc; fi
done
exit $worst
