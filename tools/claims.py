NOT_YET = {}
claim("C01", "model_checking", "bounded-exhaustive input enumeration on the real builder vs reference model",
      "Every batch of the finite scopes POST/TERM/FIELD/REP/MIX/LARGE x chunk modes is built by the real builder and every dictionary, postings list, frequency, norm and location is compared with the reference model; extra terms/postings are differences like any other. Exhaustive inside the scope, nothing sampled.",
      TRUST, "DESIGN.md 5 C01", E1)
