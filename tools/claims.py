NOT_YET = {}
claim("C01", "model_checking", "bounded-exhaustive input enumeration on the real builder vs reference model",
      "Every batch of the finite scopes POST/TERM/FIELD/REP/MIX/LARGE x chunk modes is built by the real builder and every dictionary, postings list, frequency, norm and location is compared with the reference model; extra terms/postings are differences like any other. Exhaustive inside the scope, nothing sampled.",
      TRUST, "DESIGN.md 5 C01", E1)
claim("C02", "model_checking", "bounded-exhaustive enumeration of merge inputs on the real merger vs reference model and vs rebuild",
      "Every list of <=2 (thorough: <=3) segments over the MIX kinds x every deletion bitmap x configurations is merged by the real merger, loaded and fully observed; compared with the model's merge and, independently, with New(survivors). Includes zero-doc inputs, zero-survivor merges, previously merged inputs (1-hit terms) and large merges crossing 1024.",
      TRUST, "DESIGN.md 5 C02", E1)
claim("C03", "model_checking", "bounded-exhaustive enumeration of merge inputs; DocumentNumbers vs model plus content check",
      "Same sweep as C02; the reported old->new map is compared entry by entry with the model, Count with the survivor count, and the _id of every surviving document is looked up at its reported new number (stored value and _id term). Public Merge/WriteTo/DocumentNumbers path included.",
      TRUST, "DESIGN.md 5 C03", E1)
claim("C16", "model_checking", "bounded-exhaustive enumeration of built/loaded/merged/re-merged segments; stats vs model",
      "CollectionStats of every field of every built, loaded, merged and merged-again segment of the scopes equals the model's definition; unknown fields are zero; CollectionStats.Merge adds component-wise on all ordered pairs of a measured value set.",
      TRUST, "DESIGN.md 5 C16", E1)
claim("C04", "model_checking", "explicit reachability over segment states (New + merge trees to depth 2), every state loaded mem+file and observed",
      "Bounded reachable set of segments (built from MIX x modes, STORED-S, DV-S, empty batch; every MERGE(k=2) output; depth-2 merges incl. zero-survivor outputs), de-duplicated by byte image; every state persists, loads from memory and from an io.ReaderAt-backed file without error/panic and all three observations agree with the model; returned byte count equals bytes written.",
      TRUST + " File-backed loads use real temp files (tmpfs when available).", "DESIGN.md 5 C04", E1)
claim("C11", "model_checking", "explicit reachability over segment states; footer/CRC invariants and byte-exact re-persist on every state",
      "Same reachable set as C04; on every state: 44-byte footer present, trailing CRC-32/IEEE equals the CRC of all preceding bytes, footer fields equal the loaded segment's accessors, byte count exact, and Load(bytes).WriteTo reproduces the file byte for byte (memory- and file-backed, two rounds).",
      TRUST, "DESIGN.md 5 C11", E1)
claim("C18", "model_checking", "bounded-exhaustive enumeration of (segment, term list) on the real DocsMatchingTerms vs model union",
      "Every list of <=3 (thorough <=4) (field, term) pairs over known/unknown/empty fields and general/1-hit/absent terms, repeats and field switches included, on every built, loaded and self-merged MIX segment: the returned bitmap equals the model's union; no error, no panic.",
      TRUST, "DESIGN.md 5 C18", E1)
claim("C08", "model_checking", "bounded-exhaustive enumeration of (segment, field, key range, automaton) on the real dictionary vs model",
      "All 4^5 term-set assignments (built and self-merged, so every 1-hit/general/absent pattern over consecutive terms occurs) and every MERGE(k=2) output with deletions; for every field (known, unknown) every [start,end) over a 12-key bound set x automata: entries, byte order, entry counts, end-stays-end, Contains and PostingsList agree with the model.",
      TRUST + " Harness automata implement segment.Automaton; vellum's automaton handling is exercised as part of the system under test.", "DESIGN.md 5 C08", E1)
claim("C06", "model_checking", "bounded-exhaustive enumeration of stored-field shapes, forms and visit histories on the real reader vs model",
      "STORED-S/MIX batches in five forms (built, loaded mem/file, merged by block copy, merged by re-encode): every document, out-of-range numbers and every early-stop index; STORED-B two-block family whose decompressed block sizes sweep +-33 bytes around equality with six short last-record shapes: every sequence of <=3 visits on a cold-cache copy. Delivered (field,value) lists equal the model's; nothing after false; nothing for n>=Count; no panic.",
      TRUST, "DESIGN.md 5 C06", E1 + " / " + E2)
claim("C07", "model_checking", "bounded-exhaustive enumeration of doc-value shapes, field lists and visiting orders on the real reader vs model",
      "DV-S batches (built, self-merged): every ordered subset of {a,b,d,unknown} x every visiting order <=3 with one reader; DV-C families crossing the 1024-document chunk boundary (8 placement patterns, built/loaded/merged with renumbering): every order <=3 (thorough <=4) over the documents of interest; inconsistent per-segment flags with a per-source oracle.",
      TRUST, "DESIGN.md 5 C07", E1 + " / " + E2)
claim("C05", "model_checking", "explicit-state BFS to a fixpoint over the real PostingsIterator's private state, every transition compared with a reference model",
      "For every postings list of POST(N) x chunk modes (general and 1-hit), every exclusion subset (+ foreign doc) or ReplaceActual subset and all 8 flag combinations, the state graph of the real iterator under Next/Advance(d) (all non-decreasing targets) is explored to a fixpoint: all call sequences of any length, not a depth cut. Each transition's document, frequency, norm and locations are compared with the model; nil stays nil; Count() is checked. The state abstraction is cross-validated against path mode.",
      TRUST + " The iterator state dump (verif hook) lists every field a method reads and refuses to run if the struct gains a field.", "DESIGN.md 5 C05", E2)
claim("C17", "model_checking", "bounded-exhaustive metamorphic enumeration: every hierarchical bracketing of every small segment list on the real merger, results compared with each other",
      "For every list of 3 (<=2 docs each) and 4 (<=1 doc each) segments over the kinds alphabet, every deletion set and every order-preserving hierarchical grouping, with deletions applied early or translated through DocumentNumbers() and applied late, the loaded results are pairwise observationally identical including statistics; merge([s]) is the identity for built and merged s. No reference model is involved, so the check also guards the model used by C02.",
      "Trusted base: harness observer, Go toolchain, roaring/vellum/zstd. Bounded: k<=4 segments, <=2 docs per segment.", "DESIGN.md 5 C17", E1 + " / " + E2)
claim("C13", "model_checking", "explicit-state BFS over the real private state of the reused PostingsList/PostingsIterator slots; every lookup compared with fresh objects and the model",
      "Over an alphabet of ~1.7k (quick) lookups - segment x field (with terms / without / unknown) x term (general multi-chunk / 1-hit / absent) x exclusion x flags x how much of the iterator is consumed x which preallocated objects are passed - every reuse history of length <=3 (quick) or to a fixpoint/state cap (thorough) is executed on the real code, states de-duplicated by the dump of the slots' private fields; each lookup's complete result must equal the same lookup with fresh objects and the model.",
      TRUST + " vellum.Reader state inside long-lived dictionaries is not in the state key.", "DESIGN.md 5 C13", E2)
claim("C15", "model_checking", "exhaustive enumeration of operation sequences (path mode) on real segments and caller bitmaps with a full before/after comparison after every operation",
      "Every sequence of <=3 (thorough <=4) operations drawn from 27 read/persist/merge/exclusion operations over a built, a loaded and a merged segment and three caller bitmaps is run on a fresh environment; after every operation each segment's complete observation and persisted bytes, the raw byte image behind the loaded segment and each bitmap's value and serialized form are compared with the baseline.",
      TRUST, "DESIGN.md 5 C15", E2)
