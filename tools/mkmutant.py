#!/usr/bin/env python3
"""mkmutant.py <name> <props,comma> <desc> <file> <old> <new> [<file> <old> <new> ...]
Creates mutants/<name>/{patch.diff,meta.json} by exact-string replacement in /repo (reverted afterwards)."""
import sys, subprocess, json, os
name, props, desc = sys.argv[1:4]
rest = sys.argv[4:]
assert len(rest) % 3 == 0
assert subprocess.run(['git','-C','/repo','status','--porcelain'],capture_output=True,text=True).stdout.strip()=='' , "repo dirty"
try:
    for i in range(0, len(rest), 3):
        f, old, new = rest[i:i+3]
        p = os.path.join('/repo', f)
        s = open(p).read()
        old = old.encode().decode('unicode_escape'); new = new.encode().decode('unicode_escape')
        assert s.count(old) == 1, (f, old, s.count(old))
        open(p, 'w').write(s.replace(old, new))
    diff = subprocess.run(['git','-C','/repo','diff'],capture_output=True,text=True).stdout
    d = os.path.join('/verif/mutants', name)
    os.makedirs(d, exist_ok=True)
    open(os.path.join(d,'patch.diff'),'w').write(diff)
    json.dump({"name":name,"properties":props.split(','),"kind":"hand-written mutant","description":desc}, open(os.path.join(d,'meta.json'),'w'))
    print("created", name, len(diff.splitlines()), "diff lines")
finally:
    subprocess.run(['git','-C','/repo','checkout','--','.'])
