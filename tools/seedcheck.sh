#!/bin/bash
# tools/seedcheck.sh <name> <worktree> <prop> [more props...]
# Confirms an independently produced property-breaking change (made by a sub-agent in a scratch
# worktree) and records it under seeded/<name>/: patch.diff, seeded_demo_test.go, meta.json.
#  1. the repository's own suite passes with the change, 2. the demonstration fails with the change,
#  3. the demonstration passes without it. Then runs the named property checks against /repo + patch.
set -u
. "$(dirname "${BASH_SOURCE[0]}")/../bin/env.sh"
name="$1"; wt="$2"; shift 2; props="$*"
d="$VERIF_DIR/seeded/$name"; mkdir -p "$d"
cd "$wt" || exit 2
git diff -- . ':!seeded_demo_test.go' ':!SEED_REPORT.md' > "$d/patch.diff"
[ -s "$d/patch.diff" ] || { echo "empty patch"; exit 2; }
cp seeded_demo_test.go "$d/seeded_demo_test.go.txt" 2>/dev/null
cp SEED_REPORT.md "$d/SEED_REPORT.md" 2>/dev/null
suite=FAIL; go test -vet=off -count=1 -skip TestSeededDemo ./... >/dev/null 2>&1 && suite=pass
demo_with=pass; go test -vet=off -count=1 -run 'TestSeededDemo' . >/dev/null 2>&1 || demo_with=FAIL
# (no git stash: the stash is shared by all worktrees of a repository)
git apply -R "$d/patch.diff"
demo_without=FAIL; go test -vet=off -count=1 -run 'TestSeededDemo' . >/dev/null 2>&1 && demo_without=pass
git apply "$d/patch.diff"
echo "suite_with_change=$suite demo_with_change=$demo_with demo_without_change=$demo_without"
ok=no; [ "$suite" = pass ] && [ "$demo_with" = FAIL ] && [ "$demo_without" = pass ] && ok=yes
cd "$VERIF_DIR"
res=""
if [ "$ok" = yes ]; then
  [ -n "$(git -C /repo status --porcelain)" ] && { echo "/repo dirty"; exit 2; }
  git -C /repo apply "$d/patch.diff" || { echo "patch does not apply to /repo"; exit 2; }
  for p in $props; do
    out=$(bin/check.sh "$p" quick 2>&1); rc=$?
    v=MISSED; [ $rc -eq 1 ] && echo "$out" | grep -q "^VIOLATION property=$p " && v=DETECTED; [ $rc -eq 2 ] && v=HARNESS-ERROR
    sig=$(echo "$out" | grep -m1 "signature:" | sed 's/^ *signature: //')
    echo "  $p quick: $v $sig"
    res="$res$(jq -cn --arg p "$p" --arg v "$v" --arg s "$sig" '{property:$p,tier:"quick",verdict:$v,signature:$s}'),"
  done
  git -C /repo checkout -- . ; git -C /repo clean -fdq
fi
trigger=$(grep -i -m1 -A3 "trigger" "$d/SEED_REPORT.md" 2>/dev/null | tr '\n' ' ' | cut -c1-400 | sed 's/"/\\"/g')
cat > "$d/meta.json" <<JSON
{"name":"$name","breaks":"$(echo $props | cut -d' ' -f1)","origin":"${ORIGIN:-independent sub-agent given only the property text and a scratch worktree}",
 "needs_to_manifest":"$trigger",
 "confirmed":{"suite_passes_with_change":"$suite","demo_fails_with_change":"$demo_with","demo_passes_without_change":"$demo_without"},
 "checks_run":[${res%,}]}
JSON
