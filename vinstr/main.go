// vinstr: typed AST instrumenter for package ice (DESIGN.md 3.3). Emits rewritten copies of the
// non-test sources plus an overlay JSON that also adds the virtual package .../ice/v2/verifrt.
// usage: vinstr <repo> <outDir> <runtime source dir>
package main

import (
	"bytes"
	"encoding/json"
	"fmt"
	"go/ast"
	"go/format"
	"go/token"
	"go/types"
	"os"
	"path/filepath"
	"strconv"
	"strings"

	"golang.org/x/tools/go/packages"
)

const rtPath = "github.com/blugelabs/ice/v2/verifrt"

// recordedType: accesses to fields of every named struct type declared in package ice are
// recorded (the run time decides which of them are scheduling points / fully monitored).
func recordedType(n *types.Named) bool {
	_, isStruct := n.Underlying().(*types.Struct)
	return isStruct
}

type inst struct {
	pkg   *packages.Package
	fset  *token.FileSet
	info  *types.Info
	file  *ast.File
	fname string
	used  bool // rt used in this file
	nstep int
	nmap  int
	nsync int
	nelem int
	// header nodes that are evaluated conditionally (else-if headers, case expressions): element
	// bases are not hoisted out of them
	noElem map[ast.Node]bool
}

// poolsOnly (VINSTR_MODE=pools): only the sync-primitive shims are installed - no steps, no map-range
// rewrites. Used for the UNinstrumented checks, whose only need is a deterministic sync.Pool.
var poolsOnly = os.Getenv("VINSTR_MODE") == "pools"

func main() {
	repo, outDir, rtSrc := os.Args[1], os.Args[2], os.Args[3]
	cfg := &packages.Config{
		Mode:       packages.NeedName | packages.NeedFiles | packages.NeedSyntax | packages.NeedTypes | packages.NeedTypesInfo | packages.NeedImports | packages.NeedDeps,
		Dir:        repo,
		BuildFlags: []string{"-tags=verif"},
	}
	pkgs, err := packages.Load(cfg, ".")
	if err != nil || len(pkgs) != 1 || len(pkgs[0].Errors) > 0 {
		fmt.Fprintln(os.Stderr, "load failed", err, len(pkgs))
		os.Exit(2)
	}
	p := pkgs[0]
	overlay := map[string]string{}
	os.MkdirAll(outDir, 0o755)
	tot := [4]int{}
	for i, f := range p.Syntax {
		in := &inst{pkg: p, fset: p.Fset, info: p.TypesInfo, file: f, fname: filepath.Base(p.GoFiles[i])}
		for _, d := range f.Decls {
			if fd, ok := d.(*ast.FuncDecl); ok && fd.Body != nil {
				in.block(fd.Body)
			}
		}
		// function literals at package level (var x = func...) e.g. sync.Pool New
		for _, d := range f.Decls {
			if gd, ok := d.(*ast.GenDecl); ok {
				ast.Inspect(gd, func(n ast.Node) bool {
					if fl, ok := n.(*ast.FuncLit); ok {
						in.block(fl.Body)
						return false
					}
					return true
				})
			}
		}
		tot[0] += in.nstep
		tot[1] += in.nmap
		tot[2] += in.nsync
		tot[3] += in.nelem
		if !in.used {
			continue
		}
		addImport(f, rtPath)
		var buf bytes.Buffer
		if err := format.Node(&buf, p.Fset, f); err != nil {
			fmt.Fprintln(os.Stderr, "format", in.fname, err)
			os.Exit(2)
		}
		out := filepath.Join(outDir, in.fname)
		os.WriteFile(out, buf.Bytes(), 0o644)
		overlay[p.GoFiles[i]] = out
	}
	// the runtime is added as a virtual package inside the ice module; every file must be listed
	rtFiles, _ := filepath.Glob(filepath.Join(rtSrc, "*.go"))
	if len(rtFiles) == 0 {
		fmt.Fprintln(os.Stderr, "no runtime sources in", rtSrc)
		os.Exit(2)
	}
	for _, f := range rtFiles {
		overlay[filepath.Join(repo, "verifrt", filepath.Base(f))] = f
	}
	js, _ := json.MarshalIndent(map[string]interface{}{"Replace": overlay}, "", " ")
	os.WriteFile(filepath.Join(outDir, "overlay.json"), js, 0o644)
	fmt.Printf("steps=%d mapranges=%d syncshims=%d elemaccs=%d files=%d\n", tot[0], tot[1], tot[2], tot[3], len(overlay)-len(rtFiles))
}

func addImport(f *ast.File, path string) {
	spec := &ast.ImportSpec{Path: &ast.BasicLit{Kind: token.STRING, Value: strconv.Quote(path)}}
	gd := &ast.GenDecl{Tok: token.IMPORT, Specs: []ast.Spec{spec}}
	f.Decls = append([]ast.Decl{gd}, f.Decls...)
}

func (in *inst) site(n ast.Node) string {
	pos := in.fset.Position(n.Pos())
	return fmt.Sprintf("%s:%d", in.fname, pos.Line)
}

// block rewrites a block statement in place.
func (in *inst) block(b *ast.BlockStmt) {
	if b == nil {
		return
	}
	b.List = in.list(b.List)
}

func (in *inst) list(l []ast.Stmt) []ast.Stmt {
	var out []ast.Stmt
	for _, s := range l {
		pre, s2 := in.stmt(s)
		out = append(out, pre...)
		out = append(out, s2)
	}
	return out
}

// stmt processes one statement: returns statements to insert before it and the (possibly rewritten) statement.
func (in *inst) stmt(s ast.Stmt) (pre []ast.Stmt, out ast.Stmt) {
	out = s
	var hdr []ast.Node // nodes whose accesses belong to this step
	var rangeX ast.Expr // operand of a range statement (before the map-range rewrite)
	switch x := s.(type) {
	case *ast.BlockStmt:
		in.block(x)
		return nil, x
	case *ast.LabeledStmt:
		p, inner := in.stmt(x.Stmt)
		x.Stmt = inner
		return p, x
	case *ast.IfStmt:
		hdr = append(hdr, x.Init, x.Cond)
		in.block(x.Body)
		if x.Else != nil {
			_, e := in.stmt(x.Else) // else-if: header shares this step (coarser)
			x.Else = e
			if ei, ok := x.Else.(*ast.IfStmt); ok {
				hdr = append(hdr, ei.Init, ei.Cond)
			}
		}
	case *ast.ForStmt:
		hdr = append(hdr, x.Init, x.Cond, x.Post)
		in.block(x.Body)
		if accs, extra := in.accesses(x.Cond, x.Post); !poolsOnly && (len(accs) > 0 || extra) {
			x.Body.List = append(x.Body.List, in.stepStmt(x.Body.Rbrace, in.site(x)+"/loop", accs))
		}
	case *ast.RangeStmt:
		hdr = append(hdr, x.X)
		rangeX = x.X
		in.block(x.Body)
		if t := in.info.TypeOf(x.X); t != nil {
			if mt, ok := t.Underlying().(*types.Map); ok {
				if !poolsOnly && in.rewriteMapRange(x, mt) {
					in.nmap++
				}
			}
		}
	case *ast.SwitchStmt:
		hdr = append(hdr, x.Init, x.Tag)
		for _, c := range x.Body.List {
			cc := c.(*ast.CaseClause)
			for _, e := range cc.List {
				hdr = append(hdr, e)
				in.skipElems(e)
			}
			cc.Body = in.list(cc.Body)
		}
	case *ast.TypeSwitchStmt:
		hdr = append(hdr, x.Init, x.Assign)
		for _, c := range x.Body.List {
			cc := c.(*ast.CaseClause)
			cc.Body = in.list(cc.Body)
		}
	case *ast.SelectStmt:
		for _, c := range x.Body.List {
			cc := c.(*ast.CommClause)
			cc.Body = in.list(cc.Body)
		}
		if !poolsOnly {
			pre = append(pre, in.stepStmt(x.Pos(), in.site(x)+"/select", nil))
		}
		return pre, x
	default:
		hdr = append(hdr, s)
	}
	// function literals inside header expressions: instrument their bodies
	for _, h := range hdr {
		if isNil(h) {
			continue
		}
		ast.Inspect(h, func(n ast.Node) bool {
			if fl, ok := n.(*ast.FuncLit); ok {
				in.block(fl.Body)
				return false
			}
			return true
		})
	}
	accs, extra := in.accessesAt(s.Pos(), hdr...)
	// sync shims (rewrites calls in place)
	for _, h := range hdr {
		if !isNil(h) {
			in.shimSync(h)
		}
	}
	if rangeX != nil {
		if b, ok := in.elemBase(rangeX, s.Pos()); ok {
			dup := false
			for _, a := range accs {
				if a.elem != 0 && exprString(a.base) == exprString(b) {
					dup = true
				}
			}
			if !dup {
				accs = append(accs, access{base: b, field: "[]", elem: 'r'})
			}
		}
	}
	if !poolsOnly && (len(accs) > 0 || extra) {
		pre = append(pre, in.stepStmt(s.Pos(), in.site(s), accs))
	}
	return pre, out
}

func (in *inst) skipElems(nodes ...ast.Node) {
	if in.noElem == nil {
		in.noElem = map[ast.Node]bool{}
	}
	for _, n := range nodes {
		if !isNil(n) {
			in.noElem[n] = true
		}
	}
}

func isNil(n ast.Node) bool {
	if n == nil {
		return true
	}
	switch v := n.(type) {
	case ast.Stmt:
		return v == nil
	case ast.Expr:
		return v == nil
	}
	return false
}

type access struct {
	base  ast.Expr // nil for globals
	field string
	write bool
	// elem: 0 = field/global access; otherwise an access to the ELEMENTS of the slice or map `base`
	// evaluates to, identified at run time by the backing array / map header (so that an access
	// through a local alias - fields := seg.Fields(); fields[0] = x - meets the owner's accesses):
	// 'r' read, 'w' write, 'a' append (a write only if len < cap, decided at run time)
	elem byte
}

// accesses collects shared accesses in the given nodes (not descending into func literals).
// extra reports channel ops / sync calls that make this a scheduling point without accesses.
func (in *inst) accesses(nodes ...ast.Node) (out []access, extra bool) {
	return in.accessesAt(token.NoPos, nodes...)
}

// elemBase reports whether x is a slice (non-byte elements) or map valued expression that can be
// evaluated a second time, ahead of the statement at pos, without changing behaviour.
func (in *inst) elemBase(x ast.Expr, pos token.Pos) (ast.Expr, bool) {
	return in.elemBaseB(x, pos, false)
}

// elemBaseB: bytesOK admits []byte too (used for whole-slice operations - copy, append, Put*, a
// []byte handed to a call - not for single index expressions: every varint byte would be a step).
func (in *inst) elemBaseB(x ast.Expr, pos token.Pos, bytesOK bool) (ast.Expr, bool) {
	for {
		if p, ok := x.(*ast.ParenExpr); ok {
			x = p.X
			continue
		}
		// buf[:n] / buf[0:n] share buf's first element
		if se, ok := x.(*ast.SliceExpr); ok {
			if se.Low == nil {
				x = se.X
				continue
			}
			if bl, ok := se.Low.(*ast.BasicLit); ok && bl.Value == "0" {
				x = se.X
				continue
			}
		}
		break
	}
	t := in.info.TypeOf(x)
	if t == nil {
		return nil, false
	}
	switch u := t.Underlying().(type) {
	case *types.Slice:
		if b, ok := u.Elem().Underlying().(*types.Basic); ok && (b.Kind() == types.Uint8 || b.Kind() == types.Byte) && !bytesOK {
			return nil, false
		}
	case *types.Map:
	default:
		return nil, false
	}
	if !in.pureElem(x, pos, 0) {
		return nil, false
	}
	return x, true
}

// pureElem: identifiers, field selections, dereferences and indexing by an identifier or literal,
// all of whose variables are declared before pos.
func (in *inst) pureElem(x ast.Expr, pos token.Pos, depth int) bool {
	switch v := x.(type) {
	case *ast.Ident:
		o := in.info.Uses[v]
		if o == nil {
			return false
		}
		if _, isVar := o.(*types.Var); !isVar {
			return false
		}
		if pos != token.NoPos && o.Parent() != in.pkg.Types.Scope() && o.Pos() >= pos {
			return false
		}
		return true
	case *ast.SelectorExpr:
		if s, ok := in.info.Selections[v]; !ok || s.Kind() != types.FieldVal {
			return false
		}
		return in.pureElem(v.X, pos, depth)
	case *ast.ParenExpr:
		return in.pureElem(v.X, pos, depth)
	case *ast.StarExpr:
		return in.pureElem(v.X, pos, depth)
	case *ast.IndexExpr:
		if depth > 0 {
			return false
		}
		if t := in.info.TypeOf(v.X); t != nil {
			if _, isMap := t.Underlying().(*types.Map); isMap {
				return false // would need the comma-ok form to stay panic-free... keep it simple
			}
		}
		switch i := v.Index.(type) {
		case *ast.BasicLit:
		case *ast.Ident:
			if !in.pureElem(i, pos, depth+1) {
				return false
			}
		default:
			return false
		}
		return in.pureElem(v.X, pos, depth+1)
	}
	return false
}

// foreignObjects: types of other packages whose objects ice holds in its structs and that are NOT
// safe for concurrent use. A method call on such an object is recorded as an access to the object
// itself (identified by its address): a write, unless the method is listed as read-only. Objects
// that are safe for concurrent use (vellum.FST, zstd Encoder/Decoder through EncodeAll/DecodeAll,
// segment.Data) are deliberately absent.
var foreignObjects = map[string]map[string]bool{
	"github.com/blevesearch/vellum.Reader":      {},
	"github.com/blevesearch/vellum.FSTIterator": {},
	"github.com/blevesearch/vellum.Iterator":    {"Current": true},
	"github.com/blevesearch/vellum.Builder":     {},
	"github.com/RoaringBitmap/roaring.Bitmap": {"Contains": true, "ContainsInt": true, "GetCardinality": true, "IsEmpty": true, "Iterator": true,
		"ReverseIterator": true, "ManyIterator": true, "Clone": true, "ToArray": true, "String": true, "GetSizeInBytes": true,
		"GetSerializedSizeInBytes": true, "WriteTo": true, "ToBytes": true, "MarshalBinary": true, "Minimum": true, "Maximum": true,
		"Rank": true, "Select": true, "Equals": true, "Intersects": true, "AndCardinality": true, "OrCardinality": true,
		"HasRunCompression": true, "Stats": true, "Iterate": true},
	"github.com/RoaringBitmap/roaring.IntPeekable": {"HasNext": true, "PeekNext": true},
	"github.com/RoaringBitmap/roaring.IntIterable": {"HasNext": true},
	"bytes.Reader": {"Len": true, "Size": true},
	"bufio.Writer": {"Available": true, "Buffered": true, "Size": true},
}

// foreignCall: is c a method call on an object of a foreignObjects type? Returns the receiver and
// whether the method mutates it.
func (in *inst) foreignCall(c *ast.CallExpr) (recv ast.Expr, write, ok bool) {
	sel, isSel := c.Fun.(*ast.SelectorExpr)
	if !isSel {
		return nil, false, false
	}
	s, has := in.info.Selections[sel]
	if !has || s.Kind() != types.MethodVal {
		return nil, false, false
	}
	t := in.info.TypeOf(sel.X)
	if t == nil {
		return nil, false, false
	}
	if p, isPtr := t.(*types.Pointer); isPtr {
		t = p.Elem()
	}
	n, isNamed := t.(*types.Named)
	if !isNamed || n.Obj().Pkg() == nil {
		return nil, false, false
	}
	ro, known := foreignObjects[n.Obj().Pkg().Path()+"."+n.Obj().Name()]
	if !known {
		return nil, false, false
	}
	return sel.X, !ro[sel.Sel.Name], true
}

// declaredBefore: every variable x mentions is declared before pos (the step is inserted ahead of
// the statement, so a variable declared by the statement's own init clause - `if v := s.f; v.g` -
// is not in scope there; such an access is left to the statement's other recorded accesses).
func (in *inst) declaredBefore(x ast.Expr, pos token.Pos) bool {
	if pos == token.NoPos {
		return true
	}
	ok := true
	ast.Inspect(x, func(n ast.Node) bool {
		if id, isID := n.(*ast.Ident); isID {
			if o, isVar := in.info.Uses[id].(*types.Var); isVar && !o.IsField() && o.Parent() != in.pkg.Types.Scope() && o.Pos() >= pos {
				ok = false
			}
		}
		return true
	})
	return ok
}

func (in *inst) accessesAt(pos token.Pos, nodes ...ast.Node) (out []access, extra bool) {
	writes := map[ast.Expr]bool{}
	elems := map[string]access{}
	var elemOrder []string
	var addElemB func(x ast.Expr, kind byte, bytesOK bool)
	addElem := func(x ast.Expr, kind byte) { addElemB(x, kind, false) }
	addElemB = func(x ast.Expr, kind byte, bytesOK bool) {
		b, ok := in.elemBaseB(x, pos, bytesOK)
		if !ok {
			return
		}
		key := exprString(b)
		old, seen := elems[key]
		if !seen {
			elemOrder = append(elemOrder, key)
		}
		// strongest kind wins: w > a > r
		rank := map[byte]int{0: 0, 'r': 1, 'a': 2, 'w': 3}
		if rank[kind] > rank[old.elem] {
			elems[key] = access{base: b, field: "[]", elem: kind, write: kind != 'r'}
		}
	}
	addObj := func(x ast.Expr, write bool) {
		for {
			if p, ok := x.(*ast.ParenExpr); ok {
				x = p.X
				continue
			}
			break
		}
		if !in.pureElem(x, pos, 0) {
			return
		}
		// the object is identified by its address: a pointer (or interface holding one) as is, an
		// addressable value through &
		var b ast.Expr = x
		if tv, ok := in.info.Types[x]; ok {
			switch tv.Type.Underlying().(type) {
			case *types.Pointer, *types.Interface:
			default:
				if !tv.Addressable() {
					return
				}
				b = &ast.UnaryExpr{Op: token.AND, X: x}
			}
		}
		key := "obj:" + exprString(b)
		old, seen := elems[key]
		if !seen {
			elemOrder = append(elemOrder, key)
		}
		kind := byte('o')
		if write || old.elem == 'O' {
			kind = 'O'
		}
		elems[key] = access{base: b, field: "*", elem: kind, write: kind == 'O'}
	}
	// guarded: depth of enclosing conditionally evaluated operands (right side of && and ||):
	// hoisting an element base out of them could dereference a nil the guard protects against
	var walkElems func(n ast.Node, lhs bool)
	walkElems = func(n ast.Node, lhs bool) {
		if isNil(n) {
			return
		}
		switch v := n.(type) {
		case *ast.FuncLit:
			return
		case *ast.BinaryExpr:
			walkElems(v.X, false)
			if v.Op == token.LAND || v.Op == token.LOR {
				return // right operand: conditionally evaluated
			}
			walkElems(v.Y, false)
			return
		case *ast.AssignStmt:
			for _, l := range v.Lhs {
				walkElems(l, true)
			}
			for _, r := range v.Rhs {
				walkElems(r, false)
			}
			return
		case *ast.IncDecStmt:
			walkElems(v.X, true)
			return
		case *ast.ParenExpr:
			walkElems(v.X, lhs)
			return
		case *ast.SelectorExpr:
			walkElems(v.X, lhs) // x[i].f = v writes the element
			return
		case *ast.IndexExpr:
			if lhs {
				addElem(v.X, 'w')
			} else {
				addElem(v.X, 'r')
			}
			walkElems(v.X, false)
			walkElems(v.Index, false)
			return
		case *ast.CallExpr:
			if recv, write, ok := in.foreignCall(v); ok {
				addObj(recv, write)
			}
			name := ""
			switch f := v.Fun.(type) {
			case *ast.Ident:
				name = f.Name
			case *ast.SelectorExpr:
				if id, ok := f.X.(*ast.Ident); ok {
					name = id.Name + "." + f.Sel.Name
				}
			}
			// []byte arguments: whole-slice reads, or writes for the known destinations
			isBytes := func(e ast.Expr) bool {
				t := in.info.TypeOf(e)
				if t == nil {
					return false
				}
				sl, ok := t.Underlying().(*types.Slice)
				if !ok {
					return false
				}
				b, ok := sl.Elem().Underlying().(*types.Basic)
				return ok && (b.Kind() == types.Uint8 || b.Kind() == types.Byte)
			}
			short := name
			if i := strings.LastIndex(short, "."); i >= 0 {
				short = short[i+1:]
			}
			if sel, ok := v.Fun.(*ast.SelectorExpr); ok && name == "" {
				short = sel.Sel.Name
			}
			if sel, ok := v.Fun.(*ast.SelectorExpr); ok {
				short = sel.Sel.Name
			}
			for ai, a := range v.Args {
				if !isBytes(a) {
					continue
				}
				kind := byte('r')
				switch {
				case ai == 0 && (short == "copy" || strings.HasPrefix(short, "Put") || short == "Read" || short == "ReadAt" || short == "ZSTDDecompress" || short == "ZSTDCompress" || strings.HasPrefix(short, "Append")):
					kind = 'w'
				case ai == 0 && short == "append":
					kind = 'a'
				case ai == 1 && (short == "ReadFull" || short == "DecodeAll" || short == "EncodeAll"):
					kind = 'w'
				}
				addElemB(a, kind, true)
			}
			if len(v.Args) > 0 {
				switch name {
				case "append":
					addElem(v.Args[0], 'a')
					for _, a := range v.Args[1:] {
						if v.Ellipsis != token.NoPos {
							addElem(a, 'r')
						}
					}
				case "copy":
					addElem(v.Args[0], 'w')
					if len(v.Args) > 1 {
						addElem(v.Args[1], 'r')
					}
				case "delete":
					addElem(v.Args[0], 'w')
				case "sort.Strings", "sort.Ints", "sort.Slice", "sort.SliceStable", "sort.Float64s":
					addElem(v.Args[0], 'w')
				}
			}
			walkElems(v.Fun, false)
			for _, a := range v.Args {
				walkElems(a, false)
			}
			return
		case *ast.RangeStmt:
			// only the operand is part of the header
			addElem(v.X, 'r')
			walkElems(v.X, false)
			return
		}
		// generic descent
		ast.Inspect(n, func(c ast.Node) bool {
			if c == n || c == nil {
				return true
			}
			walkElems(c, false)
			return false
		})
	}
	for _, n := range nodes {
		if !isNil(n) && !in.noElem[n] {
			walkElems(n, false)
		}
	}
	markLHS := func(e ast.Expr) {
		// find root-most shared selector along the lvalue path
		for {
			switch v := e.(type) {
			case *ast.ParenExpr:
				e = v.X
				continue
			case *ast.IndexExpr:
				e = v.X
				continue
			case *ast.SliceExpr:
				e = v.X
				continue
			case *ast.StarExpr:
				e = v.X
				continue
			case *ast.SelectorExpr:
				if in.sharedField(v) {
					writes[v] = true
					return
				}
				e = v.X
				continue
			case *ast.Ident:
				if in.isGlobal(v) {
					writes[v] = true
				}
				return
			}
			return
		}
	}
	for _, n := range nodes {
		if isNil(n) {
			continue
		}
		ast.Inspect(n, func(n ast.Node) bool {
			switch v := n.(type) {
			case *ast.FuncLit:
				return false
			case *ast.AssignStmt:
				for _, l := range v.Lhs {
					markLHS(l)
				}
			case *ast.IncDecStmt:
				markLHS(v.X)
			case *ast.RangeStmt:
				if v.Tok == token.ASSIGN {
					if v.Key != nil {
						markLHS(v.Key)
					}
					if v.Value != nil {
						markLHS(v.Value)
					}
				}
			case *ast.UnaryExpr:
				if v.Op == token.AND {
					markLHS(v.X)
				}
				if v.Op == token.ARROW {
					extra = true
				}
			case *ast.SendStmt:
				extra = true
			case *ast.CallExpr:
				// writes through a reference: the destination of copy/append/binary.Put*, any
				// re-sliced shared buffer handed to a call (buf[:0], buf[:cap(buf)] - the scratch
				// buffer idiom), and mutating methods of a shared bytes.Buffer
				if w := in.writtenThrough(v); len(w) > 0 {
					for _, e := range w {
						markLHS(e)
					}
				}
			}
			return true
		})
	}
	seen := map[string]bool{}
	for _, n := range nodes {
		if isNil(n) {
			continue
		}
		ast.Inspect(n, func(n ast.Node) bool {
			switch v := n.(type) {
			case *ast.FuncLit:
				return false
			case *ast.SelectorExpr:
				if in.sharedField(v) {
					if b, ok := in.baseExpr(v.X); ok && in.declaredBefore(v.X, pos) {
						key := exprString(b) + "." + v.Sel.Name + fmt.Sprint(writes[v])
						if !seen[key] {
							seen[key] = true
							out = append(out, access{base: b, field: v.Sel.Name, write: writes[v]})
						}
					}
				}
			case *ast.Ident:
				if in.isGlobal(v) {
					key := "global." + v.Name + fmt.Sprint(writes[v])
					if !seen[key] {
						seen[key] = true
						out = append(out, access{field: v.Name, write: writes[v]})
					}
				}
			case *ast.CallExpr:
				if in.syncCall(v) != "" {
					extra = true
				}
			}
			return true
		})
	}
	for _, k := range elemOrder {
		out = append(out, elems[k])
	}
	return out, extra
}

// writtenThrough returns the argument/receiver expressions a call may write through.
func (in *inst) writtenThrough(c *ast.CallExpr) (out []ast.Expr) {
	name := ""
	switch f := c.Fun.(type) {
	case *ast.Ident:
		name = f.Name
	case *ast.SelectorExpr:
		name = f.Sel.Name
		// mutating methods on a bytes.Buffer value that is shared state
		if tv, ok := in.info.Types[f.X]; ok && tv.Type != nil {
			t := tv.Type
			if p, isPtr := t.(*types.Pointer); isPtr {
				t = p.Elem()
			}
			if n, isNamed := t.(*types.Named); isNamed && n.Obj().Pkg() != nil && n.Obj().Pkg().Path() == "bytes" && n.Obj().Name() == "Buffer" {
				switch name {
				case "Len", "Bytes", "String", "Cap":
				default:
					out = append(out, f.X)
				}
			}
		}
	}
	if len(c.Args) > 0 {
		switch name {
		case "copy", "append", "PutUvarint", "PutVarint", "PutUint16", "PutUint32", "PutUint64":
			out = append(out, c.Args[0])
		}
	}
	for _, a := range c.Args {
		if se, ok := a.(*ast.SliceExpr); ok {
			out = append(out, se.X)
		}
	}
	return out
}

func (in *inst) isGlobal(id *ast.Ident) bool {
	o, ok := in.info.Uses[id].(*types.Var)
	return ok && o.Pkg() == in.pkg.Types && o.Parent() == in.pkg.Types.Scope()
}

func (in *inst) sharedField(sel *ast.SelectorExpr) bool {
	s, ok := in.info.Selections[sel]
	if !ok || s.Kind() != types.FieldVal {
		return false
	}
	t := s.Recv()
	if p, ok := t.(*types.Pointer); ok {
		t = p.Elem()
	}
	n, ok := t.(*types.Named)
	return ok && n.Obj().Pkg() == in.pkg.Types && recordedType(n)
}

// baseExpr returns an expression evaluating to a pointer identifying the base object.
func (in *inst) baseExpr(x ast.Expr) (ast.Expr, bool) {
	if !pure(x) {
		return nil, false
	}
	tv, ok := in.info.Types[x]
	if !ok {
		return nil, false
	}
	if _, isPtr := tv.Type.Underlying().(*types.Pointer); isPtr {
		return x, true
	}
	if tv.Addressable() {
		return &ast.UnaryExpr{Op: token.AND, X: x}, true
	}
	return nil, false
}

func pure(x ast.Expr) bool {
	switch v := x.(type) {
	case *ast.Ident:
		return true
	case *ast.SelectorExpr:
		return pure(v.X)
	case *ast.ParenExpr:
		return pure(v.X)
	case *ast.StarExpr:
		return pure(v.X)
	}
	return false
}

func exprString(e ast.Expr) string {
	var b bytes.Buffer
	format.Node(&b, token.NewFileSet(), e)
	return b.String()
}

func (in *inst) rt(name string) ast.Expr {
	in.used = true
	return &ast.SelectorExpr{X: ast.NewIdent("verifrt"), Sel: ast.NewIdent(name)}
}

func (in *inst) stepStmt(pos token.Pos, site string, accs []access) ast.Stmt {
	in.nstep++
	args := []ast.Expr{&ast.BasicLit{Kind: token.STRING, Value: strconv.Quote(site)}}
	for _, a := range accs {
		fn := "R"
		if a.write {
			fn = "W"
		}
		var base ast.Expr = ast.NewIdent("nil")
		if a.base != nil {
			base = a.base
		}
		if a.elem != 0 {
			in.nelem++
			fn := map[byte]string{'r': "RE", 'w': "WE", 'a': "AE", 'o': "RO", 'O': "WO"}[a.elem]
			args = append(args, &ast.CallExpr{Fun: in.rt(fn), Args: []ast.Expr{base}})
			continue
		}
		args = append(args, &ast.CallExpr{Fun: in.rt(fn), Args: []ast.Expr{base, &ast.BasicLit{Kind: token.STRING, Value: strconv.Quote(a.field)}}})
	}
	return &ast.ExprStmt{X: &ast.CallExpr{Fun: in.rt("Step"), Args: args}}
}

// syncCall classifies a call on a sync primitive: returns shim name or "".
func (in *inst) syncCall(c *ast.CallExpr) string {
	sel, ok := c.Fun.(*ast.SelectorExpr)
	if !ok {
		return ""
	}
	s, ok := in.info.Selections[sel]
	if !ok || s.Kind() != types.MethodVal {
		return ""
	}
	t := s.Recv()
	if p, ok := t.(*types.Pointer); ok {
		t = p.Elem()
	}
	n, ok := t.(*types.Named)
	if !ok || n.Obj().Pkg() == nil || n.Obj().Pkg().Path() != "sync" {
		return ""
	}
	switch n.Obj().Name() + "." + sel.Sel.Name {
	case "Mutex.Lock":
		return "MutexLock"
	case "Mutex.Unlock":
		return "MutexUnlock"
	case "Mutex.TryLock":
		return "MutexTryLock"
	case "Once.Do":
		return "OnceDo"
	case "Pool.Get":
		return "PoolGet"
	case "Pool.Put":
		return "PoolPut"
	}
	fmt.Fprintf(os.Stderr, "unsupported sync call %s.%s at %s\n", n.Obj().Name(), sel.Sel.Name, in.site(c))
	os.Exit(2)
	return ""
}

func (in *inst) shimSync(n ast.Node) {
	ast.Inspect(n, func(n ast.Node) bool {
		if _, ok := n.(*ast.FuncLit); ok {
			return false
		}
		c, ok := n.(*ast.CallExpr)
		if !ok {
			return true
		}
		name := in.syncCall(c)
		if name == "" {
			return true
		}
		sel := c.Fun.(*ast.SelectorExpr)
		recv := sel.X
		if tv := in.info.Types[recv]; tv.Type != nil {
			if _, isPtr := tv.Type.Underlying().(*types.Pointer); !isPtr {
				recv = &ast.UnaryExpr{Op: token.AND, X: recv}
			}
		}
		c.Fun = in.rt(name)
		c.Args = append([]ast.Expr{recv}, c.Args...)
		in.nsync++
		return true
	})
}

func (in *inst) typeExpr(t types.Type) (string, bool) {
	ok := true
	s := types.TypeString(t, func(p *types.Package) string {
		if p == in.pkg.Types {
			return ""
		}
		for _, imp := range in.file.Imports {
			path, _ := strconv.Unquote(imp.Path.Value)
			if path == p.Path() {
				if imp.Name != nil {
					return imp.Name.Name
				}
				return p.Name()
			}
		}
		ok = false
		return p.Name()
	})
	return s, ok
}

// rewriteMapRange turns `for k, v := range m {body}` into iteration over verifrt.MapKeys(m).
func (in *inst) rewriteMapRange(r *ast.RangeStmt, mt *types.Map) bool {
	if !pure(r.X) {
		fmt.Fprintf(os.Stderr, "cannot rewrite map range at %s\n", in.site(r))
		os.Exit(2)
	}
	kt, ok := in.typeExpr(mt.Key())
	if !ok {
		fmt.Fprintf(os.Stderr, "cannot render key type at %s\n", in.site(r))
		os.Exit(2)
	}
	site := in.site(r)
	tmp := ast.NewIdent("verifK")
	var pre []ast.Stmt
	keyExpr := &ast.TypeAssertExpr{X: tmp, Type: ast.NewIdent(kt)}
	var keyName ast.Expr = ast.NewIdent("verifKey")
	if id, ok := r.Key.(*ast.Ident); ok && id.Name != "_" {
		keyName = r.Key
	} else if r.Key != nil && !isBlank(r.Key) {
		keyName = r.Key
	}
	tok := token.DEFINE
	if r.Tok == token.ASSIGN && keyName == r.Key {
		tok = token.ASSIGN
	}
	pre = append(pre, &ast.AssignStmt{Lhs: []ast.Expr{keyName}, Tok: tok, Rhs: []ast.Expr{keyExpr}})
	okID := ast.NewIdent("verifOK")
	var valName ast.Expr = ast.NewIdent("_")
	if r.Value != nil && !isBlank(r.Value) {
		valName = r.Value
	}
	vtok := token.DEFINE
	if r.Tok == token.ASSIGN && valName == r.Value {
		// v assigned, ok needs declaring: emit `var verifOK bool` then `v, verifOK = m[k]`
		pre = append(pre, &ast.DeclStmt{Decl: &ast.GenDecl{Tok: token.VAR, Specs: []ast.Spec{&ast.ValueSpec{Names: []*ast.Ident{okID}, Type: ast.NewIdent("bool")}}}})
		vtok = token.ASSIGN
	}
	pre = append(pre, &ast.AssignStmt{Lhs: []ast.Expr{valName, okID}, Tok: vtok, Rhs: []ast.Expr{&ast.IndexExpr{X: r.X, Index: keyName}}})
	pre = append(pre, &ast.IfStmt{Cond: &ast.UnaryExpr{Op: token.NOT, X: okID}, Body: &ast.BlockStmt{List: []ast.Stmt{&ast.BranchStmt{Tok: token.CONTINUE}}}})
	if keyName != r.Key {
		pre = append(pre, &ast.AssignStmt{Lhs: []ast.Expr{ast.NewIdent("_")}, Tok: token.ASSIGN, Rhs: []ast.Expr{keyName}})
	}
	r.Body.List = append(pre, r.Body.List...)
	r.Key = ast.NewIdent("_")
	r.Value = tmp
	r.Tok = token.DEFINE
	r.X = &ast.CallExpr{Fun: in.rt("MapKeys"), Args: []ast.Expr{r.X, &ast.BasicLit{Kind: token.STRING, Value: strconv.Quote(site)}}}
	return true
}

func isBlank(e ast.Expr) bool {
	id, ok := e.(*ast.Ident)
	return ok && id.Name == "_"
}

var _ = strings.TrimSpace
