# sourced by every script: offline Go environment and paths
export GOFLAGS=-mod=mod GOPROXY=off GOSUMDB=off GOTOOLCHAIN=local
export VERIF_DIR="${VERIF_DIR:-$(cd "$(dirname "${BASH_SOURCE[0]}")/.." && pwd)}"
export VERIF_BUILD="$VERIF_DIR/.build"
mkdir -p "$VERIF_BUILD"
# the tree under test: /repo unless VERIF_REPO says otherwise (background runs on a snapshot)
export VERIF_REPO="${VERIF_REPO:-/repo}"
# harness go.mod with the replace directive pointing at the tree under test
verif_modfile() {
  sed "s#=> /repo#=> $VERIF_REPO#" "$VERIF_DIR/harness/go.mod" > "$VERIF_BUILD/harness.mod"
  cp "$VERIF_REPO/go.sum" "$VERIF_BUILD/harness.sum"
  echo "$VERIF_BUILD/harness.mod"
}
