# sourced by every script: offline Go environment and paths
export GOFLAGS=-mod=mod GOPROXY=off GOSUMDB=off GOTOOLCHAIN=local
export VERIF_DIR="${VERIF_DIR:-$(cd "$(dirname "${BASH_SOURCE[0]}")/.." && pwd)}"
export VERIF_BUILD="$VERIF_DIR/.build"
mkdir -p "$VERIF_BUILD"
