#!/bin/bash
# Regenerates the instrumented overlay from /repo's current working tree (DESIGN.md 3.3).
set -eu
. "$(dirname "${BASH_SOURCE[0]}")/env.sh"
if [ ! -x "$VERIF_BUILD/vinstr" ] || [ "$VERIF_DIR/vinstr/main.go" -nt "$VERIF_BUILD/vinstr" ]; then
  (cd "$VERIF_DIR/vinstr" && go build -o "$VERIF_BUILD/vinstr" .)
fi
rm -rf "$VERIF_BUILD/instr"
"$VERIF_BUILD/vinstr" "$VERIF_REPO" "$VERIF_BUILD/instr" "$VERIF_DIR/harness/verifrt_src" > "$VERIF_BUILD/instr.log" 2>&1 || { cat "$VERIF_BUILD/instr.log" >&2; exit 2; }
