#!/bin/bash
# Regenerates the instrumented overlay from /repo's current working tree (DESIGN.md 3.3).
set -eu
. "$(dirname "${BASH_SOURCE[0]}")/env.sh"
if [ ! -x "$VERIF_BUILD/vinstr" ] || [ "$VERIF_DIR/vinstr/main.go" -nt "$VERIF_BUILD/vinstr" ]; then
  (cd "$VERIF_DIR/vinstr" && go build -o "$VERIF_BUILD/vinstr" .)
fi
# instrument.sh pools: only the sync shims (deterministic sync.Pool for the uninstrumented checks)
if [ "${1:-}" = pools ]; then
  rm -rf "$VERIF_BUILD/instr-pools"
  VINSTR_MODE=pools "$VERIF_BUILD/vinstr" "$VERIF_REPO" "$VERIF_BUILD/instr-pools" "$VERIF_DIR/harness/verifrt_src" > "$VERIF_BUILD/instr-pools.log" 2>&1 || { cat "$VERIF_BUILD/instr-pools.log" >&2; exit 2; }
  exit 0
fi
rm -rf "$VERIF_BUILD/instr"
"$VERIF_BUILD/vinstr" "$VERIF_REPO" "$VERIF_BUILD/instr" "$VERIF_DIR/harness/verifrt_src" > "$VERIF_BUILD/instr.log" 2>&1 || { cat "$VERIF_BUILD/instr.log" >&2; exit 2; }
