#!/bin/bash
# bin/check.sh <ID> <quick|thorough>      run one property check against the current tree of /repo (or $VERIF_REPO)
# bin/check.sh <ID> --replay <file>       re-execute one recorded violation
# exit 0 = held on everything explored; 1 = VIOLATION printed; 2 = harness/build error
set -u
. "$(dirname "${BASH_SOURCE[0]}")/env.sh"
ID="${1:?property id}"; shift
MODE="${1:-quick}"
[ -n "${VERIF_TIER:-}" ] && [ "$MODE" != "--replay" ] && [ $# -eq 0 ] && MODE="$VERIF_TIER"
cd "$VERIF_DIR/harness" || exit 2
MODFILE=$(verif_modfile)
case "$ID" in
  C09|C14) INSTR=1 ;;
  *) INSTR=0 ;;
esac
# always rebuild from /repo's current working tree (the Go build cache makes this ~1-2 s when unchanged)
if [ $INSTR = 1 ]; then
  BIN="$VERIF_BUILD/vcheck-instr"
  "$VERIF_DIR/bin/instrument.sh" || { echo "BUILD-ERROR property=$ID (instrumenter failed on the current tree)" >&2; exit 2; }
  if ! out=$(go build -modfile="$MODFILE" -overlay "$VERIF_BUILD/instr/overlay.json" -tags "verif verifinstr" -o "$BIN" ./cmd/vcheck 2>&1); then
    echo "BUILD-ERROR property=$ID (instrumented build of the current tree failed)" >&2; echo "$out" >&2; exit 2
  fi
else
  BIN="$VERIF_BUILD/vcheck"
  if ! out=$(go build -modfile="$MODFILE" -tags verif -o "$BIN" ./cmd/vcheck 2>&1); then
    echo "BUILD-ERROR property=$ID (current tree or hooks do not compile)" >&2; echo "$out" >&2; exit 2
  fi
fi
if [ "$MODE" = "--replay" ]; then
  exec "$BIN" -replay "${2:?replay file}"
fi
exec "$BIN" "$ID" "$MODE"
