#!/bin/bash
# bin/check.sh <ID> <quick|thorough>      run one property check against the current tree of /repo (or $VERIF_REPO)
# bin/check.sh <ID> --replay <file>       re-execute one recorded violation
# exit 0 = held on everything explored; 1 = VIOLATION printed; 2 = harness/build error
set -u
. "$(dirname "${BASH_SOURCE[0]}")/env.sh"
ID="${1:?property id}"; shift
MODE="${1:-quick}"
[ -n "${VERIF_TIER:-}" ] && [ "$MODE" != "--replay" ] && [ $# -eq 0 ] && MODE="$VERIF_TIER"
cd "$VERIF_DIR/harness" || exit 2
MODFILE=$(verif_modfile)
case "$ID" in
  C09|C12|C14|C19) INSTR=1 ;;
  *) INSTR=0 ;;
esac
# always rebuild from /repo's current working tree (the Go build cache makes this ~1-2 s when unchanged)
if [ $INSTR = 1 ]; then
  BIN="$VERIF_BUILD/vcheck-instr"
  "$VERIF_DIR/bin/instrument.sh" || { echo "BUILD-ERROR property=$ID (instrumenter failed on the current tree)" >&2; exit 2; }
  if ! out=$(go build -modfile="$MODFILE" -overlay "$VERIF_BUILD/instr/overlay.json" -tags "verif verifinstr" -o "$BIN" ./cmd/vcheck 2>&1); then
    echo "BUILD-ERROR property=$ID (instrumented build of the current tree failed)" >&2; echo "$out" >&2; exit 2
  fi
else
  # the other checks run the tree as it is, except that sync.Pool is replaced by a deterministic
  # pool that is emptied at the start of every case (overlay with the sync shims only)
  BIN="$VERIF_BUILD/vcheck"
  "$VERIF_DIR/bin/instrument.sh" pools || { echo "BUILD-ERROR property=$ID (instrumenter failed on the current tree)" >&2; exit 2; }
  if ! out=$(go build -modfile="$MODFILE" -overlay "$VERIF_BUILD/instr-pools/overlay.json" -tags "verif verifpools" -o "$BIN" ./cmd/vcheck 2>&1); then
    echo "BUILD-ERROR property=$ID (current tree or hooks do not compile)" >&2; echo "$out" >&2; exit 2
  fi
fi
if [ "$MODE" = "--replay" ]; then
  exec "$BIN" -replay "${2:?replay file}"
fi
# thorough tier of the schedule-explored properties: free-running race-detector pass first
# (supplementary sampling on an UNinstrumented -race build; it can only add reports)
RACE_RC=0
if [ "$MODE" = thorough ] && { [ "$ID" = C09 ] || [ "$ID" = C14 ]; }; then
  RBIN="$VERIF_BUILD/vcheck-race"
  if go build -modfile="$MODFILE" -race -tags verif -o "$RBIN" ./cmd/vcheck 2>"$VERIF_BUILD/race-build.log"; then
    rout=$(GORACE="halt_on_error=1 exitcode=66" GOMAXPROCS=8 "$RBIN" -racepass "$ID" -iters 20 2>&1); rrc=$?
    if [ $rrc -eq 66 ]; then
      mkdir -p "$VERIF_DIR/replays"; rp="$VERIF_DIR/replays/$ID-racepass.txt"; echo "$rout" > "$rp"
      echo "VIOLATION property=$ID replay=$rp"
      echo "  signature: $ID/race-detector (free-running -race pass; re-run: GORACE=halt_on_error=1 $RBIN -racepass $ID)"
      echo "$rout" | grep -A12 "DATA RACE" | head -30 | sed 's/^/  /'
      RACE_RC=1
      export VERIF_RACEPASS="the Go race detector reported a data race (report in $rp)"
    elif [ $rrc -eq 0 ]; then
      export VERIF_RACEPASS="$(echo "$rout" | tail -1)"
    else
      export VERIF_RACEPASS="race pass could not run (exit $rrc)"
    fi
  else
    export VERIF_RACEPASS="race build failed: $(tail -1 "$VERIF_BUILD/race-build.log")"
  fi
fi
"$BIN" "$ID" "$MODE"; rc=$?
[ $RACE_RC -eq 1 ] && [ $rc -eq 0 ] && rc=1
exit $rc
