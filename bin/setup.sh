#!/bin/bash
# MANIFEST.setup_cmd: build the framework from files on disk only (offline), warm the build cache,
# and self-check the instrumenter (the repository's own tests must pass on the instrumented overlay).
set -eu
. "$(dirname "${BASH_SOURCE[0]}")/env.sh"
cd "$VERIF_DIR/harness"
MODFILE=$(verif_modfile)
(cd "$VERIF_DIR/vinstr" && go build -o "$VERIF_BUILD/vinstr" .)
"$VERIF_DIR/bin/instrument.sh" pools
go build -modfile="$MODFILE" -overlay "$VERIF_BUILD/instr-pools/overlay.json" -tags "verif verifpools" -o "$VERIF_BUILD/vcheck" ./cmd/vcheck
"$VERIF_BUILD/vcheck" -list >/dev/null
"$VERIF_DIR/bin/instrument.sh"
go build -modfile="$MODFILE" -overlay "$VERIF_BUILD/instr/overlay.json" -tags "verif verifinstr" -o "$VERIF_BUILD/vcheck-instr" ./cmd/vcheck
# instrumenter self-check: behaviour preserved on everything the repository's suite can see
(cd "$VERIF_REPO" && go test -overlay "$VERIF_BUILD/instr/overlay.json" -vet=off -count=1 . >"$VERIF_BUILD/instr-selftest.log" 2>&1) || { echo "instrumented overlay fails the repository's tests:"; tail -20 "$VERIF_BUILD/instr-selftest.log"; exit 1; }
(cd "$VERIF_REPO" && go test -overlay "$VERIF_BUILD/instr-pools/overlay.json" -vet=off -count=1 . >"$VERIF_BUILD/instr-pools-selftest.log" 2>&1) || { echo "pools-only overlay fails the repository's tests:"; tail -20 "$VERIF_BUILD/instr-pools-selftest.log"; exit 1; }
echo "setup ok ($(cat "$VERIF_BUILD/instr.log"))"
