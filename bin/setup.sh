#!/bin/bash
# MANIFEST.setup_cmd: build the framework from files on disk only (offline), warm the build cache.
set -eu
. "$(dirname "${BASH_SOURCE[0]}")/env.sh"
cd "$VERIF_DIR/harness"
cp /repo/go.sum go.sum
go build -tags verif -o "$VERIF_BUILD/vcheck" ./cmd/vcheck
"$VERIF_BUILD/vcheck" -list >/dev/null
echo "setup ok"
