// Package gen holds the finite scopes: deterministic enumerators of batches,
// segment lists and alphabets. Every enumerator numbers its cases 0,1,2,... in a fixed
// order; nothing is sampled.
package gen

import (
	"fmt"

	"verifharness/model"
)

type Doc = model.Doc
type Field = model.Field
type Term = model.Term
type Loc = model.Loc

// Chunk modes: fixed sizes 1..5, legacy 1024, adaptive 1025.
var ModesAll = []uint32{1, 2, 3, 4, 5, 1024, 1025}
var ModesSmall = []uint32{1, 2, 3, 1025}

// T is the term alphabet. "\xff" is only legal in fields without doc values.
var T = []string{"", "x", "y", "y\x00\xfe", "\xff"}

// DVByName: whether a field has doc values is a function of its name (DESIGN 3.5).
func DVByName(f string) bool { return f == "b" || f == "d" }

// payload kinds of one posting
const (
	KAbsent = iota
	KF1     // freq 1, no locations
	KF2L1   // freq 2, one location
	KF300L2 // freq 300, two locations with multi-byte varints
	NK
)

func TermKind(t string, k int, locField string) Term {
	switch k {
	case KF1:
		return Term{T: t, Freq: 1}
	case KF2L1:
		// start and end straddle 128: their varints differ in length, so a byte-length prefix
		// computed from the wrong one of them is wrong
		return Term{T: t, Freq: 2, Locs: []Loc{{F: locField, P: 1, S: 125, E: 130}}}
	case KF300L2:
		return Term{T: t, Freq: 300, Locs: []Loc{{F: locField, P: 200, S: 70000, E: 70005}, {F: locField, P: 3, S: 16380, E: 16390}}}
	}
	panic("kind")
}

func fld(name string, terms ...Term) Field {
	n := 0
	for _, t := range terms {
		n += t.Freq
	}
	return Field{N: name, Len: n, Terms: terms, DV: DVByName(name)}
}

func stored(f Field, val string) Field {
	f.St = true
	f.Val = []byte(val)
	return f
}

// IDField is the `_id` field of document number i of batch tag.
func IDField(tag string, i int) Field {
	id := fmt.Sprintf("%s%d", tag, i)
	return stored(fld("_id", Term{T: id, Freq: 1}), id)
}

// Pow enumerates all vectors of length n over [0,base) in lexicographic order.
func Pow(base, n int, yield func(v []int) bool) bool {
	v := make([]int, n)
	for {
		if !yield(v) {
			return false
		}
		i := n - 1
		for ; i >= 0; i-- {
			v[i]++
			if v[i] < base {
				break
			}
			v[i] = 0
		}
		if i < 0 {
			return true
		}
	}
}

// Post enumerates POST(N): one field "a", one term "x"; each of n<=N docs is absent
// (an empty document) or carries one of the payload kinds.
func Post(N int, yield func(idx int64, batch []Doc, kinds []int) bool) {
	var idx int64
	for n := 0; n <= N; n++ {
		ok := Pow(NK, n, func(v []int) bool {
			batch := make([]Doc, n)
			for i, k := range v {
				if k != KAbsent {
					batch[i] = Doc{fld("a", TermKind("x", k, ""))}
				} else {
					batch[i] = Doc{}
				}
			}
			r := yield(idx, batch, v)
			idx++
			return r
		})
		if !ok {
			return
		}
	}
}

// PostExact enumerates the batches of POST with exactly n documents (indices start at 0).
func PostExact(n int, yield func(idx int64, batch []Doc, kinds []int) bool) {
	var idx int64
	Pow(NK, n, func(v []int) bool {
		batch := make([]Doc, n)
		for i, k := range v {
			if k != KAbsent {
				batch[i] = Doc{fld("a", TermKind("x", k, ""))}
			} else {
				batch[i] = Doc{}
			}
		}
		r := yield(idx, batch, v)
		idx++
		return r
	})
}

// TermScope enumerates TERM(N): one non-doc-value field "a", n<=N docs, each (doc, term in T)
// in {absent, f1, f1+loc} (nk=3) or {absent, f1+loc} (nk=2).
func TermScope(N, nk int, yield func(idx int64, batch []Doc) bool) {
	var idx int64
	for n := 1; n <= N; n++ {
		ok := Pow(nk, n*len(T), func(v []int) bool {
			batch := make([]Doc, n)
			for d := 0; d < n; d++ {
				var ts []Term
				for ti, t := range T {
					k := v[d*len(T)+ti]
					if nk == 2 && k == 1 {
						k = 2
					}
					switch k {
					case 1:
						ts = append(ts, Term{T: t, Freq: 1})
					case 2:
						ts = append(ts, Term{T: t, Freq: 1, Locs: []Loc{{P: d + 1, S: ti, E: ti + 1}}})
					}
				}
				if len(ts) > 0 {
					batch[d] = Doc{fld("a", ts...)}
				} else {
					batch[d] = Doc{}
				}
			}
			r := yield(idx, batch)
			idx++
			return r
		})
		if !ok {
			return
		}
	}
}

var fieldNames = []string{"a", "b", "c"}

// FieldScope enumerates FIELD(N): fields a,b,c per doc in {absent, term, term+loc "",
// term+loc -> next field, term+[loc -> next field, loc ""], term+[loc "", loc -> next field]},
// both declaration orders. Cases whose location names a field absent
// from the batch are outside the input contract and skipped (not numbered).
func FieldScope(N int, orders int, nopt int, yield func(idx int64, batch []Doc) bool) {
	var idx int64
	for n := 0; n <= N; n++ {
		for order := 0; order < orders; order++ {
			ok := Pow(nopt, n*3, func(v []int) bool {
				present := map[string]bool{}
				named := map[string]bool{}
				batch := make([]Doc, n)
				for d := 0; d < n; d++ {
					var doc Doc
					for j := 0; j < 3; j++ {
						fi := j
						if order == 1 {
							fi = 2 - j
						}
						k := v[d*3+fi]
						if k == 0 {
							continue
						}
						name := fieldNames[fi]
						present[name] = true
						t := Term{T: "x", Freq: 1}
						if fi == 1 {
							t.T = "y"
						}
						switch k {
						case 2:
							t.Locs = []Loc{{P: 1, S: d, E: d + 1}}
						case 3:
							nx := fieldNames[(fi+1)%3]
							named[nx] = true
							t.Locs = []Loc{{F: nx, P: 2, S: d, E: d + 2}}
						case 4: // a location naming another field, then one with an empty field name
							nx := fieldNames[(fi+1)%3]
							named[nx] = true
							t.Freq = 2
							t.Locs = []Loc{{F: nx, P: 2, S: d, E: d + 2}, {P: 3, S: d + 3, E: d + 4}}
						case 5: // the other order
							nx := fieldNames[(fi+1)%3]
							named[nx] = true
							t.Freq = 2
							t.Locs = []Loc{{P: 3, S: d + 3, E: d + 4}, {F: nx, P: 2, S: d, E: d + 2}}
						}
						f := fld(name, t)
						if fi == 0 {
							f = stored(f, fmt.Sprintf("a%d", d))
						}
						doc = append(doc, f)
					}
					batch[d] = doc
				}
				for f := range named {
					if !present[f] {
						return true
					}
				}
				r := yield(idx, batch)
				idx++
				return r
			})
			if !ok {
				return
			}
		}
	}
}

// instance kinds of a repeated field for REP
func repInstance(name string, k int, composite bool) Field {
	lf := ""
	if composite {
		lf = "a"
	}
	var ts []Term
	switch k & 3 {
	case 0:
		ts = []Term{{T: "x", Freq: 1}}
	case 1:
		ts = []Term{{T: "x", Freq: 2, Locs: []Loc{{F: lf, P: 1 + k, S: 1, E: 2}}}}
	case 2:
		ts = []Term{{T: "y", Freq: 1, Locs: []Loc{{F: lf, P: 7, S: 3, E: 4}}}, {T: "x", Freq: 2, Locs: []Loc{{F: lf, P: 9, S: 5, E: 6}, {P: 10, S: 7, E: 8}}}}
	case 3:
		// the same term twice inside one instance
		ts = []Term{{T: "x", Freq: 1, Locs: []Loc{{F: lf, P: 2, S: 0, E: 1}}}, {T: "x", Freq: 3, Locs: []Loc{{F: lf, P: 4, S: 8, E: 9}}}}
	}
	f := fld(name, ts...)
	f.Len += k >> 2 // vary the length independently of the term count
	if k&4 != 0 {
		f = stored(f, fmt.Sprintf("v%d", k))
	}
	if k&8 != 0 && name == "a" {
		f.Val = []byte{}
		f.St = true
	}
	return f
}

// Rep enumerates REP: 1..maxDocs docs, field `a` repeated 2..maxRep times with instances
// drawn from nk kinds, optionally followed by composite field `c` (locations naming `a`)
// repeated twice.
func Rep(maxDocs, maxRep, nk int, yield func(idx int64, batch []Doc) bool) {
	var idx int64
	for nd := 1; nd <= maxDocs; nd++ {
		for rep := 2; rep <= maxRep; rep++ {
			for comp := 0; comp < 2; comp++ {
				width := rep + comp*2
				ok := Pow(nk, nd*width, func(v []int) bool {
					batch := make([]Doc, nd)
					for d := 0; d < nd; d++ {
						var doc Doc
						for r := 0; r < rep; r++ {
							doc = append(doc, repInstance("a", v[d*width+r], false))
						}
						for r := 0; r < comp*2; r++ {
							doc = append(doc, repInstance("c", v[d*width+rep+r], true))
						}
						batch[d] = doc
					}
					r := yield(idx, batch)
					idx++
					return r
				})
				if !ok {
					return
				}
			}
		}
	}
}

// MixKinds is the menu of hand-picked document kinds combining features. The document's
// `_id` is added by MixDoc.
const NMix = 12

// vary makes a term's payload depend on the document index, so that two documents of the same
// kind never carry identical postings (a cursor that is off by one posting must be visible).
func vary(t Term, i int) Term {
	t.Freq += i
	locs := make([]Loc, len(t.Locs))
	for k, l := range t.Locs {
		l.P += i
		l.S += 10 * i
		l.E += 10 * i
		locs[k] = l
	}
	t.Locs = locs
	return t
}

func MixDoc(kind int, tag string, i int) Doc {
	id := IDField(tag, i)
	switch kind {
	case 0: // bare _id
		return Doc{id}
	case 1: // 1-hit candidate in a, shared term in b (doc values)
		// b: "x" is shared with kinds 4 and 7, "y" with kinds 2 and 10 - in kind 2 (and 7 for "x")
		// the same term carries locations, here it does not (a 1-hit candidate after a merge that
		// meets postings WITH locations in another input)
		return Doc{id, fld("a", Term{T: fmt.Sprintf("u%s%d", tag, i), Freq: 1}), fld("b", Term{T: "x", Freq: 1}, Term{T: "y", Freq: 1})}
	case 2: // locations, stored
		return Doc{id, stored(fld("a", vary(TermKind("x", KF2L1, ""), i), TermKind("y", KF1, "")), "hello"), fld("b", vary(TermKind("y", KF2L1, ""), i))}
	case 3: // repeated field a + stored twice
		return Doc{id, stored(fld("a", TermKind("x", KF1, "")), "v1"), stored(fld("a", vary(TermKind("x", KF2L1, ""), i), TermKind("", KF1, "")), "v2")}
	case 4: // composite c naming a and b
		return Doc{id, fld("a", vary(TermKind("x", KF2L1, ""), i)), fld("b", vary(TermKind("x", KF1, ""), i)),
			fld("c", Term{T: "x", Freq: 3, Locs: []Loc{{F: "a", P: 1, S: 0, E: 3}, {P: 9, S: 5, E: 6}, {F: "b", P: 1, S: 0, E: 1}}})}
	case 5: // binary terms, big payload
		return Doc{id, fld("a", TermKind("y\x00\xfe", KF300L2, ""), TermKind("\xff", KF1, "")), fld("d", TermKind("y\x00\xfe", KF1, ""), TermKind("x", KF1, ""))}
	case 6: // stored-only field (no terms), empty stored value
		return Doc{id, Field{N: "z", St: true, Val: []byte("only stored")}, Field{N: "a", St: true, Val: []byte{}}}
	case 7: // empty term everywhere, doc values
		return Doc{id, fld("a", vary(TermKind("", KF2L1, ""), i)), fld("b", TermKind("", KF1, ""), vary(TermKind("x", KF2L1, ""), i))}
	case 8: // nothing at all, not even _id
		return Doc{}
	case 9: // many terms in a doc-value field
		return Doc{id, fld("d", TermKind("x", KF1, ""), TermKind("y", KF1, ""), TermKind("", KF1, ""), TermKind("y\x00\xfe", KF2L1, ""))}
	case 10: // field present but without terms and not stored
		return Doc{id, Field{N: "a", Len: 3}, fld("b", TermKind("y", KF1, ""))}
	case 11: // freq > #locs, 300-byte stored value
		big := make([]byte, 300)
		for j := range big {
			big[j] = byte('a' + j%7)
		}
		return Doc{id, stored(fld("a", Term{T: "x", Freq: 5, Locs: []Loc{{P: 1, S: 1, E: 2}}}, TermKind("y", KF1, "")), string(big))}
	case 12, 13, 14, 15, 16: // TERM payload kinds: one term a:"x" as absent / f1 / f1+loc / f2+loc / f300+2 locs, next to a:"other"
		ts := []Term{{T: "other", Freq: 1}}
		switch kind {
		case 13:
			ts = append(ts, Term{T: "x", Freq: 1})
		case 14:
			ts = append(ts, Term{T: "x", Freq: 1, Locs: []Loc{{P: 1 + i, S: 125, E: 130}}})
		case 15:
			ts = append(ts, Term{T: "x", Freq: 2, Locs: []Loc{{P: 2 + i, S: 3, E: 4}}})
		case 16:
			ts = append(ts, TermKind("x", KF300L2, ""))
		}
		return Doc{id, fld("a", ts...)}
	}
	panic("mix kind")
}

// Mix enumerates MIX(K): all sequences of 0..maxDocs docs over the first K kinds.
func Mix(K, maxDocs int, tag string, yield func(idx int64, batch []Doc, kinds []int) bool) {
	var idx int64
	for n := 0; n <= maxDocs; n++ {
		ok := Pow(K, n, func(v []int) bool {
			batch := make([]Doc, n)
			for i, k := range v {
				batch[i] = MixDoc(k, tag, i)
			}
			r := yield(idx, batch, v)
			idx++
			return r
		})
		if !ok {
			return
		}
	}
}

// Large family: numDocs documents, posting pattern p for term "x" of field "a".
var LargeSizes = []int{1023, 1024, 1025, 2047, 2048, 2049, 3072, 3073}

const NLargePatterns = 6

func largeHas(p, i, n int) bool {
	switch p {
	case 0:
		return true // every doc: cardinality == numDocs
	case 1:
		return i%2 == 0
	case 2:
		return i < 1024 // exactly 1024 (or n) leading docs
	case 3:
		return i < 1023 || i == n-1
	case 4:
		return i%1024 == 1023 || i%1024 == 0 // around chunk edges only
	case 5:
		return i >= n-1025 // trailing 1025
	}
	return false
}

// Large builds one batch of the LARGE family. payload 0: freq 1 no locs; 1: locations on
// every third posting and a second, rarer term; 2: every document carries the field twice with
// the same term (term occurrences = 2 x documents, which straddles other 1024-buckets).
func Large(n, pattern, payload int) []Doc {
	batch := make([]Doc, n)
	for i := 0; i < n; i++ {
		var doc Doc
		if largeHas(pattern, i, n) {
			t := Term{T: "x", Freq: 1}
			if payload == 1 {
				t.Freq = 1 + i%3
				if i%3 == 0 {
					t.Locs = []Loc{{P: i, S: i, E: i + 1}}
				}
			}
			f := fld("a", t)
			if payload == 1 && i%5 == 0 {
				f = fld("a", t, Term{T: "y", Freq: 2, Locs: []Loc{{P: 1, S: 2, E: 3}}})
			}
			doc = append(doc, f)
			if payload == 2 {
				// the field a second time with the same term: term occurrences = 2 x documents
				doc = append(doc, fld("a", Term{T: "x", Freq: 2, Locs: []Loc{{P: i + 1, S: 1, E: 2}}}))
			}
		}
		batch[i] = doc
	}
	return batch
}

// ---- MERGE scopes ----

// MergeKinds orders the MIX kinds so that a prefix is already diverse (1-hit candidates,
// locations+stored, composite, a field only some segments have, ...).
// The first three have pairwise different field lists of which one is a prefix of the others
// ([_id a b] with stored a, [_id a z] with stored a and z, [_id]); the fourth adds 1-hit candidates.
var MergeKinds = []int{2, 6, 0, 1, 4, 3, 5, 7, 8, 9, 10, 11, 12, 13, 14, 15, 16}

// TermKindBase: index in MergeKinds of the first TERM payload kind (5 kinds).
const TermKindBase = 12

// SegSpec is one input segment of a merge case: the kinds of its documents and its deletions.
type SegSpec struct {
	Kinds []int    // indices into MergeKinds
	Drops []uint32 // valid if HasDrops
	// DropForm: 0 = nil bitmap, 1 = non-nil bitmap holding Drops (possibly empty)
	DropForm int
}

func (s SegSpec) Batch(tag string) []Doc {
	b := make([]Doc, len(s.Kinds))
	for i, k := range s.Kinds {
		b[i] = MixDoc(MergeKinds[k], tag, i)
	}
	return b
}

func (s SegSpec) String() string {
	d := "nil"
	if s.DropForm == 1 {
		d = fmt.Sprint(s.Drops)
	}
	ks := make([]int, len(s.Kinds))
	for i, k := range s.Kinds {
		ks[i] = MergeKinds[k]
	}
	return fmt.Sprintf("kinds%v drop=%s", ks, d)
}

// SegOptions enumerates every (batch of <=maxDocs docs over K kinds, deletion bitmap).
// Deletions: nil; for 2+ docs also the empty non-nil bitmap; every non-empty subset.
func SegOptions(K, maxDocs int) []SegSpec {
	var out []SegSpec
	for n := 0; n <= maxDocs; n++ {
		Pow(K, n, func(v []int) bool {
			kinds := append([]int(nil), v...)
			out = append(out, SegSpec{Kinds: kinds})
			if n >= 2 {
				out = append(out, SegSpec{Kinds: kinds, DropForm: 1})
			}
			for mask := 1; mask < 1<<uint(n); mask++ {
				var d []uint32
				for i := 0; i < n; i++ {
					if mask&(1<<uint(i)) != 0 {
						d = append(d, uint32(i))
					}
				}
				out = append(out, SegSpec{Kinds: kinds, Drops: d, DropForm: 1})
			}
			return true
		})
	}
	return out
}

// MergeLists enumerates every list of 1..k segment specs drawn from opts.
func MergeLists(opts []SegSpec, k int, yield func(idx int64, segs []SegSpec) bool) {
	var idx int64
	for n := 1; n <= k; n++ {
		ok := Pow(len(opts), n, func(v []int) bool {
			segs := make([]SegSpec, n)
			for i, o := range v {
				segs[i] = opts[o]
			}
			r := yield(idx, segs)
			idx++
			return r
		})
		if !ok {
			return
		}
	}
}

// ---- STORED-S / DV-S ----

const NStoredCfg = 13

func storedDoc(cfg int, i int) Doc {
	big := make([]byte, 300)
	for j := range big {
		big[j] = byte('A' + (j+i)%23)
	}
	id := fmt.Sprintf("d%d", i)
	idf := fld("_id", Term{T: id, Freq: 1}) // _id indexed but not stored unless the config says so
	switch cfg {
	case 0: // nothing stored at all
		return Doc{idf, fld("a", TermKind("x", KF1, ""))}
	case 1: // empty value
		return Doc{idf, stored(fld("a", TermKind("x", KF1, "")), "")}
	case 2: // one short value
		return Doc{idf, stored(fld("a", TermKind("x", KF1, "")), fmt.Sprintf("v%d", i))}
	case 3: // repeated stored field: two values, input order matters
		return Doc{idf, stored(fld("a", TermKind("x", KF1, "")), "second-in-sort-but-first-in-input"), stored(fld("a", TermKind("y", KF1, "")), "another")}
	case 4: // 300-byte value
		return Doc{idf, stored(fld("a"), string(big))}
	case 5: // two stored fields declared in reverse of field-list order, plus stored _id
		return Doc{stored(fld("z", TermKind("x", KF1, "")), "zz"), stored(fld("a", TermKind("x", KF1, "")), "aa"), IDField("d", i)}
	case 6: // stored-only field without terms, empty document otherwise
		return Doc{Field{N: "z", St: true, Val: []byte{0, 0xff, 0}}}
	case 7: // no fields at all
		return Doc{}
	case 8: // a 300-byte value followed by values of other fields: in-record offsets and lengths need multi-byte varints
		return Doc{idf, stored(fld("a", TermKind("x", KF1, "")), string(big)), stored(fld("c"), "after-the-big-one"), stored(fld("z"), string(big[:200]))}
	case 9: // many stored fields, some repeated
		d := Doc{idf}
		for k := 0; k < 20; k++ {
			d = append(d, stored(fld(fmt.Sprintf("s%02d", k%17)), fmt.Sprintf("value-%d-of-doc-%d", k, i)))
		}
		return d
	case 10: // a non-empty value followed by EMPTY values at the very end of the record
		return Doc{idf, stored(fld("a", TermKind("x", KF1, "")), "xyz"), stored(fld("z"), "")}
	case 11: // a repeated field whose trailing values are empty
		return Doc{IDField("d", i), stored(fld("a", TermKind("x", KF1, "")), "one"), stored(fld("a"), ""), stored(fld("a"), "")}
	case 12: // an empty value followed by a non-empty one
		return Doc{idf, stored(fld("a", TermKind("x", KF1, "")), ""), stored(fld("z"), "after-empty")}
	}
	panic("stored cfg")
}

// StoredS enumerates STORED-S: 0..maxDocs docs x 13 stored configurations.
func StoredS(maxDocs int, yield func(idx int64, batch []Doc, cfgs []int) bool) {
	var idx int64
	for n := 0; n <= maxDocs; n++ {
		ok := Pow(NStoredCfg, n, func(v []int) bool {
			batch := make([]Doc, n)
			for i, k := range v {
				batch[i] = storedDoc(k, i)
			}
			r := yield(idx, batch, v)
			idx++
			return r
		})
		if !ok {
			return
		}
	}
}

// DVS enumerates DV-S: 0..maxDocs docs; per doc: subset of {x,y,""} in doc-value field b (8),
// d in {absent, x} (2), and if withA also non-doc-value field a in {absent, y} (2).
func DVS(maxDocs int, withA bool, yield func(idx int64, batch []Doc) bool) {
	per := 16
	if withA {
		per = 32
	}
	var idx int64
	for n := 0; n <= maxDocs; n++ {
		ok := Pow(per, n, func(v []int) bool {
			batch := make([]Doc, n)
			for i, k := range v {
				var doc Doc
				var ts []Term
				for bi, t := range []string{"y", "x", ""} { // deliberately unsorted input order
					if k&(1<<uint(bi)) != 0 {
						ts = append(ts, Term{T: t, Freq: 1})
					}
				}
				if len(ts) > 0 {
					doc = append(doc, fld("b", ts...))
				}
				if k&8 != 0 {
					doc = append(doc, fld("d", Term{T: "x", Freq: 2}))
				}
				if k&16 != 0 {
					doc = append(doc, fld("a", Term{T: "y", Freq: 1}))
				}
				batch[i] = doc
			}
			r := yield(idx, batch)
			idx++
			return r
		})
		if !ok {
			return
		}
	}
}

// ---- EXTREME: fixed batches with values far outside the small alphabets ----

type Named struct {
	Name  string
	Batch []Doc
	Heavy bool // megabytes of values: callers run fewer variants
}

// Extremes returns a handful of fixed batches whose *values* (not shapes) are extreme: huge
// frequencies and location numbers (multi-byte varints up to 10 bytes), long terms and stored
// values (past 255 / 64 KiB), thousands of distinct terms in one field, thousands of locations in
// one posting, a field repeated hundreds of times in one document, 128-document stored blocks
// larger than 1 MiB.
func Extremes() []Named {
	var out []Named
	rep := func(s string, n int) string {
		b := make([]byte, 0, n)
		for len(b) < n {
			b = append(b, s...)
		}
		return string(b[:n])
	}
	// huge frequencies and location numbers
	{
		// (the reader allocates frequency x 80 bytes for a posting that has locations - a resource
		// characteristic, not a property: the truly huge frequencies go to terms without locations)
		big := []int{1 << 16, 1<<31 - 1, 1 << 40}
		withLocs := []int{1 << 16, 1 << 20, 1 << 18}
		var b []Doc
		for i, f := range big {
			b = append(b, Doc{IDField("e", i), {N: "a", Len: 3, Terms: []Term{
				{T: "x", Freq: withLocs[i], Locs: []Loc{{P: 1<<32 + 5, S: 1 << 20, E: 1 << 62}, {P: 1<<63 - 1, S: 0, E: 1<<31 + 1}}},
				{T: fmt.Sprintf("only%d", i), Freq: f},
			}}, {N: "c", Len: 1, Terms: []Term{{T: "z", Freq: 1, Locs: []Loc{{F: "a", P: 1 << 33, S: 1 << 34, E: 1 << 35}}}}}})
		}
		out = append(out, Named{Name: "bigfreq", Batch: b})
	}
	// long terms and values
	{
		t300, t70k := rep("long-term-", 300), rep("very-long-term/", 70000)
		b := []Doc{
			{IDField("e", 0), {N: "a", Len: 2, St: true, Val: []byte(rep("stored-value.", 70000)), Terms: []Term{{T: t300, Freq: 1}, {T: t70k, Freq: 2, Locs: []Loc{{P: 1, S: 0, E: 70000}}}}},
				{N: "b", Len: 1, DV: true, Terms: []Term{{T: t300, Freq: 1}, {T: t300[:299], Freq: 1}}}},
			{IDField("e", 1), {N: "a", Len: 1, Terms: []Term{{T: t70k[:69999], Freq: 1}, {T: t300, Freq: 1}}}},
			{{N: "_id", Len: 1, St: true, Val: []byte(rep("id-", 400)), Terms: []Term{{T: rep("id-", 400), Freq: 1}}}},
		}
		out = append(out, Named{Name: "longterm", Batch: b})
	}
	// thousands of distinct terms in one field, hundreds of doc-value terms in one document
	{
		var t0, t1, dv []Term
		for i := 0; i < 3000; i++ {
			t0 = append(t0, Term{T: fmt.Sprintf("term%05d", i), Freq: 1 + i%3})
			if i%3 == 0 {
				t1 = append(t1, Term{T: fmt.Sprintf("term%05d", i), Freq: 1})
			}
			if i < 300 {
				dv = append(dv, Term{T: fmt.Sprintf("dv%03d", i), Freq: 1})
			}
		}
		b := []Doc{
			{IDField("e", 0), {N: "a", Len: 3000, Terms: t0}, {N: "b", Len: 300, DV: true, Terms: dv}},
			{IDField("e", 1), {N: "a", Len: 1000, Terms: t1}},
		}
		out = append(out, Named{Name: "manyterms", Batch: b})
	}
	// thousands of locations in one posting
	{
		var locs []Loc
		for i := 0; i < 5000; i++ {
			locs = append(locs, Loc{P: i + 1, S: i * 7, E: i*7 + 5})
		}
		b := []Doc{
			{IDField("e", 0), {N: "a", Len: 5000, Terms: []Term{{T: "x", Freq: 5000, Locs: locs}}}},
			{IDField("e", 1), {N: "a", Len: 2, Terms: []Term{{T: "x", Freq: 2, Locs: locs[:1]}}}},
		}
		out = append(out, Named{Name: "manylocs", Batch: b})
		// 65 535 / 65 536 / 65 537 locations in one posting (16-bit counters), each followed by a
		// posting of the same term with locations of its own
		var many []Loc
		for i := 0; i < 65537; i++ {
			many = append(many, Loc{P: i + 1, S: i * 3, E: i*3 + 2})
		}
		var w []Doc
		for k, n := range []int{65535, 65536, 65537} {
			w = append(w,
				Doc{IDField("e", 2*k), {N: "a", Len: n, Terms: []Term{{T: "x", Freq: n, Locs: many[:n]}}}},
				Doc{IDField("e", 2*k+1), {N: "a", Len: 3, Terms: []Term{{T: "x", Freq: 3, Locs: []Loc{{P: 7, S: 1000000 + k, E: 1000003 + k}, {P: 9, S: 5, E: 6}}}}}})
		}
		out = append(out, Named{"locs-65537", w, true})
	}
	// stored values that make one 128-document block exceed 1 MiB (uncompressed): a single 1.2 MiB
	// value that is NOT in the last document, and a hundred 11 KiB values
	{
		pat := func(n, salt int) []byte {
			b := make([]byte, n)
			x := uint32(salt*2654435761 + 12345)
			for i := range b {
				x = x*1664525 + 1013904223
				b[i] = byte('a' + (x>>24)%26) // poorly compressible, printable
			}
			return b
		}
		b := []Doc{{IDField("e", 0), {N: "a", Len: 1, St: true, Val: pat(1200000, 1), Terms: []Term{{T: "x", Freq: 1}}}}}
		for i := 1; i < 6; i++ {
			b = append(b, Doc{IDField("e", i), {N: "a", Len: 1, St: true, Val: []byte(fmt.Sprintf("small-%d", i)), Terms: []Term{{T: "x", Freq: 1}}}})
		}
		out = append(out, Named{"hugevalue", b, true})
		var m []Doc
		for i := 0; i < 130; i++ {
			m = append(m, Doc{IDField("e", i), {N: "a", Len: 1, St: true, Val: pat(11000, i+7), Terms: []Term{{T: "x", Freq: 1}}}})
		}
		out = append(out, Named{"mib-block", m, true})
		// one stored value above 4 MiB and one above 8 MiB (the frame is wider than the window sizes a
		// compressor or a decompressor may assume); well compressible, so the file stays small
		for _, sz := range []int{5 << 20, 9 << 20} {
			v := make([]byte, sz)
			for i := range v {
				v[i] = byte('a' + (i/7+i/4099)%26)
			}
			w := []Doc{{IDField("e", 0), {N: "a", Len: 1, St: true, Val: v, Terms: []Term{{T: "x", Freq: 1}}}},
				{IDField("e", 1), {N: "a", Len: 1, St: true, Val: []byte("small"), Terms: []Term{{T: "x", Freq: 1}}}}}
			out = append(out, Named{fmt.Sprintf("window-%dmib", sz>>20), w, true})
		}
	}
	// one field repeated hundreds of times in one document (indexed, stored, doc values)
	{
		d := Doc{IDField("e", 0)}
		for i := 0; i < 200; i++ {
			d = append(d, Field{N: "b", Len: 1, DV: true, St: true, Val: []byte(fmt.Sprintf("v%d", i)), Terms: []Term{{T: fmt.Sprintf("t%d", i%50), Freq: 1, Locs: []Loc{{P: i + 1, S: i, E: i + 1}}}}})
		}
		b := []Doc{d, {IDField("e", 1), {N: "b", Len: 1, DV: true, Terms: []Term{{T: "t7", Freq: 1}}}}}
		out = append(out, Named{Name: "manyinstances", Batch: b})
	}
	return out
}
