package props

import (
	"fmt"
	"os"
	"sync"

	segment "github.com/blugelabs/bluge_segment_api"

	"verifharness/model"
)

// RunRacePass is the free-running supplement to the schedule explorer (C09, C14): the same
// thread bodies, real goroutines, a binary built with -race and NOT instrumented (the cooperative
// scheduler's hand-offs would be happens-before edges that blind the detector). It is sampling,
// not exhaustive: it can only add reports (the Go race detector has no false positives) and sees
// sub-statement and element-level accesses the statement-granular monitor cannot. With
// GORACE="halt_on_error=1 exitcode=66" the process exits 66 on the first report.
func RunRacePass(prop string, iters int) int {
	switch prop {
	case "C09":
		batch := c09Batch()
		built, err := build(batch, 1025)
		if err != nil {
			fmt.Fprintln(os.Stderr, err)
			return 2
		}
		img, _, err := persist(built)
		if err != nil {
			fmt.Fprintln(os.Stderr, err)
			return 2
		}
		other, _ := build([]model.Doc{{}}, 1025)
		sameSchema, _ := build(batch[:4], 1025)
		menu := c09Menu(&c09Partners{other, sameSchema})
		n := 0
		for i := range menu {
			for j := i; j < len(menu); j++ {
				for it := 0; it < iters; it++ {
					seg, err := loadMem(img)
					if err != nil {
						fmt.Fprintln(os.Stderr, err)
						return 2
					}
					runConcurrently(func() { menu[i].run(seg) }, func() { menu[j].run(seg) }, func() { menu[(i+j)%len(menu)].run(seg) })
					n++
				}
			}
		}
		fmt.Printf("racepass C09: %d concurrent executions of 3 goroutines, no race reported\n", n)
	case "C14":
		menu := c14RaceMenu()
		n := 0
		for it := 0; it < iters*20; it++ {
			a, b, c := menu[it%len(menu)], menu[(it/2)%len(menu)], menu[(it/3)%len(menu)]
			runConcurrently(func() { buildBytesPlain(a) }, func() { buildBytesPlain(b) }, func() { buildBytesPlain(c) })
			n++
		}
		fmt.Printf("racepass C14: %d concurrent executions of 3 builders, no race reported\n", n)
	default:
		fmt.Fprintln(os.Stderr, "no race pass for", prop)
		return 2
	}
	return 0
}

func runConcurrently(fs ...func()) {
	var wg sync.WaitGroup
	start := make(chan struct{})
	for _, f := range fs {
		f := f
		wg.Add(1)
		go func() {
			defer wg.Done()
			defer func() { recover() }()
			<-start
			f()
		}()
	}
	close(start)
	wg.Wait()
}

func buildBytesPlain(batch []model.Doc) {
	seg, err := build(batch, 1025)
	if err == nil {
		persist(seg)
	}
}

func c14RaceMenu() [][]model.Doc {
	var out [][]model.Doc
	for _, n := range []int{1, 3, 2, 8} {
		var b []model.Doc
		for i := 0; i < n; i++ {
			b = append(b, c09Batch()[i*7%130])
		}
		out = append(out, b)
	}
	return out
}

var _ segment.Segment
