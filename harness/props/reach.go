package props

import (
	"bufio"
	"bytes"
	"encoding/binary"
	"fmt"
	"hash/crc32"
	"os"
	"strings"

	"github.com/RoaringBitmap/roaring"
	segment "github.com/blugelabs/bluge_segment_api"
	ice "github.com/blugelabs/ice/v2"

	"verifharness/explore"
	"verifharness/gen"
	"verifharness/model"
	"verifharness/obs"
)

// state is one segment reachable by New and by trees of merges.
type state struct {
	desc   string
	bytes  []byte          // persisted image (WriteTo for built, Merger output for merged)
	n      int64           // byte count WriteTo / merge reported
	orig   segment.Segment // in-memory original (nil for merger output)
	want   *model.LSeg
	mode   uint32
	depth  int
	merged bool
}

// reach enumerates the bounded reachable set: depth 0 = built segments of MIX x modes,
// STORED-S, DV-S, the empty batch and a family of document counts around 128 and 1024; depth 1 = every MERGE(k=2) output; depth 2 = every depth-1
// state merged alone (no drops / first doc dropped / everything dropped), with itself, and with
// each of three fixed partner segments in both orders. States are de-duplicated per worker by
// their exact byte image (equal bytes => equal futures).
func reach(c *explore.Ctx, visit func(scope string, idx int64, st *state)) {
	seen := map[uint64]bool{}
	emit := func(scope string, idx int64, st *state) {
		h := explore.Hash(string(st.bytes))
		if c.Replay && !(scope == c.ReplayScope && idx == c.ReplayIndex) {
			return
		}
		if !c.Replay {
			if seen[h] {
				c.Count("duplicate_states_skipped")
				return
			}
			seen[h] = true
		}
		c.R.States++
		c.Eval()
		if len(st.want.Docs) > 0 {
			c.Nontrivial()
		} else {
			c.Count("degenerate_states")
			c.Nontrivial()
		}
		c.Sample(idx, func() string { return scope + " #" + fmt.Sprint(idx) + " " + st.desc })
		visit(scope, idx, st)
	}
	builtState := func(scope string, idx int64, batch []model.Doc, mode uint32) {
		desc := fmt.Sprintf("built %s: %s", modeStr(mode), model.BatchString(batch))
		seg, err := build(batch, mode)
		if err != nil {
			c.Eval()
			c.Violate(scope, idx, sigOf(c.Prop, "build", "error: "+err.Error()), err.Error(), desc)
			return
		}
		c.R.Transitions++
		b, n, err := persist(seg)
		if err != nil {
			c.Eval()
			c.Violate(scope, idx, sigOf(c.Prop, "persist", "error: "+err.Error()), err.Error(), desc)
			return
		}
		emit(scope, idx, &state{desc: desc, bytes: b, n: n, orig: seg, want: model.Build(batch), mode: mode})
	}
	K, modes := 6, gen.ModesSmall
	if c.Thorough() {
		K, modes = gen.NMix, gen.ModesAll
	}
	for _, m := range modes {
		m := m
		scope := fmt.Sprintf("R0-MIX(%d,3)/%d", K, m)
		gen.Mix(K, 3, "m", func(idx int64, batch []gen.Doc, kinds []int) bool {
			if c.MineIdx(scope, idx) {
				builtState(scope, idx, batch, m)
			}
			return !c.Expired()
		})
	}
	gen.StoredS(3, func(idx int64, batch []gen.Doc, cfgs []int) bool {
		if c.MineIdx("R0-STORED-S", idx) {
			builtState("R0-STORED-S", idx, batch, 1025)
		}
		return !c.Expired()
	})
	gen.DVS(3, false, func(idx int64, batch []gen.Doc) bool {
		if c.MineIdx("R0-DV-S", idx) {
			builtState("R0-DV-S", idx, batch, 1025)
		}
		return !c.Expired()
	})
	// document counts around the format constants (128-document stored blocks, 1024-document
	// doc-value chunks): built, and merged alone with and without one deletion (n and n-1 survivors)
	{
		sizes := []int{127, 128, 129, 255, 256, 257, 1024, 1025}
		if c.Thorough() {
			sizes = append(sizes, 1, 2, 64, 130, 384, 512, 1023, 1026, 2048, 2049)
		}
		for si, n := range sizes {
			scope := "R0-SIZES"
			if !(c.MineIdx(scope, int64(si)) || (c.Replay && c.ReplayScope == scope+"/m" && c.ReplayIndex/2 == int64(si))) || c.Expired() {
				continue
			}
			batch := make([]model.Doc, n)
			for i := range batch {
				batch[i] = model.Doc{gen.IDField("z", i), {N: "a", Len: 1, St: i%3 == 0, Val: []byte(fmt.Sprintf("v%d", i)), Terms: []model.Term{{T: "x", Freq: 1 + i%2}}}}
				if i%4 == 0 {
					batch[i] = append(batch[i], model.Field{N: "b", Len: 1, DV: true, Terms: []model.Term{{T: fmt.Sprintf("t%d", i%5), Freq: 1}}})
				}
			}
			ls := model.Build(batch)
			seg, err := build(batch, 1025)
			if err != nil {
				c.Eval()
				c.Violate(scope, int64(si), sigOf(c.Prop, "build", "error: "+err.Error()), err.Error(), fmt.Sprint("n=", n))
				continue
			}
			c.R.Transitions++
			b, nn, err := persist(seg)
			if err != nil {
				c.Eval()
				c.Violate(scope, int64(si), sigOf(c.Prop, "persist", "error: "+err.Error()), err.Error(), fmt.Sprint("n=", n))
				continue
			}
			emit(scope, int64(si), &state{desc: fmt.Sprintf("built n=%d", n), bytes: b, n: nn, orig: seg, want: ls, mode: 1025})
			for di, drop := range []*roaring.Bitmap{nil, bitmapOf(0)} {
				var ds map[uint64]bool
				if drop != nil {
					ds = map[uint64]bool{0: true}
				}
				mb, _, mn, err := merge([]segment.Segment{seg}, []*roaring.Bitmap{drop}, 1025)
				c.R.Transitions++
				if err != nil {
					c.Eval()
					c.Violate(scope+"/m", int64(si*2+di), sigOf(c.Prop, "merge", "error: "+err.Error()), err.Error(), fmt.Sprint("n=", n))
					continue
				}
				want, _ := model.Merge([]*model.LSeg{ls}, []map[uint64]bool{ds})
				emit(scope+"/m", int64(si*2+di), &state{desc: fmt.Sprintf("merged n=%d drop-first=%v", n, drop != nil), bytes: mb, n: int64(mn), want: want, mode: 1025, depth: 1, merged: true})
			}
		}
	}
	// WIDE: many fields / long field names: multi-byte varints in the fields section and index
	{
		wide := func(nf int, longName bool) []model.Doc {
			var b []model.Doc
			for d := 0; d < 2; d++ {
				doc := model.Doc{gen.IDField("w", d)}
				for f := 0; f < nf; f++ {
					name := fmt.Sprintf("f%03d", f)
					if longName && f%50 == 0 {
						name += strings.Repeat("-long-field-name", 20) // > 300 bytes
					}
					if (f+d)%3 == 0 {
						continue
					}
					fl := model.Field{N: name, Len: 1 + f%3, Terms: []model.Term{{T: fmt.Sprintf("t%d", f%7), Freq: 1 + f%3}}, DV: f%10 == 0, St: f%25 == 0, Val: []byte(name)}
					doc = append(doc, fl)
				}
				b = append(b, doc)
			}
			return b
		}
		for wi, spec := range [][2]int{{130, 0}, {130, 1}, {300, 0}, {12, 1}} {
			scope := "R0-WIDE"
			if !(c.MineIdx(scope, int64(wi)) || (c.Replay && c.ReplayScope == scope+"/m" && c.ReplayIndex == int64(wi))) || c.Expired() {
				continue
			}
			batch := wide(spec[0], spec[1] == 1)
			ls := model.Build(batch)
			desc := fmt.Sprintf("built WIDE fields=%d longNames=%v", spec[0], spec[1] == 1)
			seg, err := build(batch, 1025)
			if err != nil {
				c.Eval()
				c.Violate(scope, int64(wi), sigOf(c.Prop, "build", "error: "+err.Error()), err.Error(), desc)
				continue
			}
			c.R.Transitions++
			b, nn, err := persist(seg)
			if err != nil {
				c.Eval()
				c.Violate(scope, int64(wi), sigOf(c.Prop, "persist", "error: "+err.Error()), err.Error(), desc)
				continue
			}
			emit(scope, int64(wi), &state{desc: desc, bytes: b, n: nn, orig: seg, want: ls, mode: 1025})
			mb, _, mn, err := merge([]segment.Segment{seg, seg}, []*roaring.Bitmap{bitmapOf(1), nil}, 1025)
			c.R.Transitions++
			if err != nil {
				c.Eval()
				c.Violate(scope+"/m", int64(wi), sigOf(c.Prop, "merge", "error: "+err.Error()), err.Error(), desc)
				continue
			}
			want, _ := model.Merge([]*model.LSeg{ls, ls}, []map[uint64]bool{{1: true}, nil})
			emit(scope+"/m", int64(wi), &state{desc: "merged twice-with-itself " + desc, bytes: mb, n: int64(mn), want: want, mode: 1025, depth: 1, merged: true})
		}
	}
	// ALLDV: every field of the segment, `_id` included, indexes doc values (no field contributes the
	// "not uninverted" filler to the doc-value index; the index is the last thing before the fields section)
	{
		mk := func(nd int, extra bool) []model.Doc {
			var b []model.Doc
			for d := 0; d < nd; d++ {
				doc := model.Doc{{N: "_id", Len: 1, DV: true, Terms: []model.Term{{T: fmt.Sprintf("id%d", d), Freq: 1}}}}
				if extra {
					doc = append(doc, model.Field{N: "b", Len: 1, DV: true, Terms: []model.Term{{T: "x", Freq: 1}}})
				}
				b = append(b, doc)
			}
			return b
		}
		for ai, batch := range [][]model.Doc{mk(1, false), mk(2, false), mk(1, true), mk(3, true)} {
			if c.MineIdx("R0-ALLDV", int64(ai)) {
				builtState("R0-ALLDV", int64(ai), batch, 1025)
			}
		}
	}
	// EXTREME values
	for ei, e := range gen.Extremes() {
		if c.MineIdx("R0-EXTREME", int64(ei)) && !c.Expired() {
			desc := "built EXTREME " + e.Name
			seg, err := build(e.Batch, 1025)
			if err != nil {
				c.Eval()
				c.Violate("R0-EXTREME", int64(ei), sigOf(c.Prop, "build", "error: "+err.Error()), err.Error(), desc)
				continue
			}
			c.R.Transitions++
			b, nn, err := persist(seg)
			if err != nil {
				c.Eval()
				c.Violate("R0-EXTREME", int64(ei), sigOf(c.Prop, "persist", "error: "+err.Error()), err.Error(), desc)
				continue
			}
			emit("R0-EXTREME", int64(ei), &state{desc: desc, bytes: b, n: nn, orig: seg, want: model.Build(e.Batch), mode: 1025})
		}
	}
	// ALIGN: segments whose data section, data section + footer without CRC, or whole file is an
	// exact multiple of the block sizes a reader or a writer may move data in (found by search over
	// the length of one incompressible stored value)
	{
		targets := []int{4096, 8192, 32768, 65536, 131072, 1 << 20}
		if c.Thorough() {
			targets = append(targets, 12288, 262144, 2<<20)
		}
		var idx int64
		for _, t := range targets {
			for _, off := range []int{44, 40, 0} {
				my := idx
				idx++
				if !c.MineIdx("R0-ALIGN", my) || c.Expired() {
					continue
				}
				batch, seg, b, nn := alignBatch(t, off)
				if batch == nil {
					c.Count("align_targets_not_reached")
					continue
				}
				c.R.Transitions++
				c.Count("align_targets_reached")
				emit("R0-ALIGN", my, &state{desc: fmt.Sprintf("built ALIGN: file length - %d = %d", off, t), bytes: b, n: nn, orig: seg, want: model.Build(batch), mode: 1025})
			}
		}
	}
	// the ZOO (segments of unusual make shared by all read-side properties)
	if !c.Replay || c.ReplayScope == "R0-ZOO" {
		save := c.ReplayScope
		if c.Replay {
			c.ReplayScope = "ZOO"
		}
		zooEach(c, true, func(idx int64, z *zooSeg) {
			c.R.Evaluations--
			c.R.Nontrivial--
			c.ReplayScope = save
			emit("R0-ZOO", idx, &state{desc: "ZOO " + z.name, bytes: z.bytes, n: int64(len(z.bytes)), want: z.want, mode: z.mode, merged: true})
			if c.Replay {
				c.ReplayScope = "ZOO"
			}
		})
		c.ReplayScope = save
	}
	// partners for depth 2
	partners := [][]model.Doc{
		{gen.MixDoc(2, "p", 0), gen.MixDoc(1, "p", 1)},
		{gen.MixDoc(6, "q", 0)},
		{},
	}
	var pSegs []segment.Segment
	var pModels []*model.LSeg
	for _, pb := range partners {
		s, err := build(pb, 1025)
		if err != nil {
			panic(err)
		}
		pSegs = append(pSegs, s)
		pModels = append(pModels, model.Build(pb))
	}
	depth2 := func(scope string, idx int64, st *state) {
		l, err := loadMem(st.bytes)
		if err != nil {
			return // reported by visit at depth 1 already
		}
		n := len(st.want.Docs)
		type tr struct {
			name  string
			segs  []segment.Segment
			ls    []*model.LSeg
			drops []*roaring.Bitmap
			ds    []map[uint64]bool
		}
		var trs []tr
		trs = append(trs, tr{"alone", []segment.Segment{l}, []*model.LSeg{st.want}, []*roaring.Bitmap{nil}, []map[uint64]bool{nil}})
		if n > 0 {
			trs = append(trs, tr{"drop-first", []segment.Segment{l}, []*model.LSeg{st.want}, []*roaring.Bitmap{bitmapOf(0)}, []map[uint64]bool{{0: true}}})
			all := roaring.New()
			allSet := map[uint64]bool{}
			for i := 0; i < n; i++ {
				all.Add(uint32(i))
				allSet[uint64(i)] = true
			}
			trs = append(trs, tr{"drop-all", []segment.Segment{l}, []*model.LSeg{st.want}, []*roaring.Bitmap{all}, []map[uint64]bool{allSet}})
			trs = append(trs, tr{"self-twice", []segment.Segment{l, l}, []*model.LSeg{st.want, st.want}, []*roaring.Bitmap{nil, bitmapOf(0)}, []map[uint64]bool{nil, {0: true}}})
		}
		for pi := range pSegs {
			trs = append(trs, tr{fmt.Sprintf("with-partner%d", pi), []segment.Segment{l, pSegs[pi]}, []*model.LSeg{st.want, pModels[pi]}, []*roaring.Bitmap{nil, nil}, []map[uint64]bool{nil, nil}})
			trs = append(trs, tr{fmt.Sprintf("partner%d-first", pi), []segment.Segment{pSegs[pi], l}, []*model.LSeg{pModels[pi], st.want}, []*roaring.Bitmap{nil, nil}, []map[uint64]bool{nil, nil}})
		}
		for ti, t := range trs {
			desc := fmt.Sprintf("depth2 %s of [%s]", t.name, st.desc)
			b, _, nn, err := merge(t.segs, t.drops, st.mode)
			c.R.Transitions++
			if err != nil {
				c.Eval()
				c.Violate(scope+"/d2", idx*16+int64(ti), sigOf(c.Prop, "merge2", "error: "+err.Error()), err.Error(), desc)
				continue
			}
			want, _ := model.Merge(t.ls, t.ds)
			emit(scope+"/d2", idx*16+int64(ti), &state{desc: desc, bytes: b, n: int64(nn), want: want, mode: st.mode, depth: 2, merged: true})
		}
	}
	check := func(scope string, idx int64, r *mergeRun) {
		c.R.Evaluations-- // mergeSweep counted the case; emit counts the state
		c.R.Transitions++
		desc := r.String()
		if r.err != nil {
			c.Eval()
			c.Violate(scope, idx, sigOf(c.Prop, "merge", "error: "+r.err.Error()), r.err.Error(), desc)
			return
		}
		st := &state{desc: "merged " + desc, bytes: r.bytes, n: int64(r.n), want: r.want, mode: r.cfg.Out, depth: 1, merged: true}
		emit(scope, idx, st)
		// the public Merge(...).WriteTo path must write the same file and report its length, whatever
		// the merge buffer size (0 and negative sizes mean "default")
		if r.cfg.Out == 1025 && (!c.Replay || (scope == c.ReplayScope && idx == c.ReplayIndex)) {
			for _, bufSize := range []int{0, -1, 1, 4096} {
				var w sliceWriter
				var n int64
				var err error
				msg := explore.Guard(func() { n, err = ice.Merge(r.segs, r.drops, bufSize).WriteTo(&w, nil) })
				c.R.Transitions++
				if msg != "" || err != nil {
					c.Violate(scope, idx, sigOf(c.Prop, "public-merge", "error: "+errText(msg, err)), errText(msg, err), fmt.Sprintf("%s bufSize=%d", desc, bufSize))
					break
				}
				if n != int64(len(w.b)) || !bytes.Equal(w.b, r.bytes) {
					c.Violate(scope, idx, c.Prop+"/public-merge/byte-count-or-bytes", fmt.Sprintf("Merge(...,%d).WriteTo returned n=%d, wrote %d bytes, identical to the hook's output=%v", bufSize, n, len(w.b), bytes.Equal(w.b, r.bytes)), desc)
					break
				}
			}
		}
		depth2(scope, idx, st)
	}
	cfgs := mergeCfgsQuick[:2]
	if c.Thorough() {
		mergeSweepNT(c, 2, 8, 2, mergeCfgsQuick, check)
	} else {
		mergeSweepNT(c, 2, 5, 2, cfgs, check)
	}
}

// mergeSweepNT is mergeSweep without its own non-trivial accounting (reach counts states).
func mergeSweepNT(c *explore.Ctx, k, K, maxDocs int, cfgs []mergeCfg, check func(scope string, idx int64, r *mergeRun)) {
	before := c.R.Nontrivial
	mergeSweep(c, k, K, maxDocs, cfgs, func(scope string, idx int64, r *mergeRun) {
		c.R.Nontrivial = before
		check(scope, idx, r)
		before = c.R.Nontrivial
	})
	c.R.Nontrivial = before
}

func init() {
	register(&explore.Prop{
		ID: "C04", Level: levelMC, Explorer: "E1 + reachability over segment states",
		Rule: "state space of segments reachable by New (MIX x modes, STORED-S, DV-S, empty batch, document counts 127..129, 255..257, 1024, 1025 built and merged, segments with 130/300 fields and 300-byte field names) and by merge trees to depth 2 (every MERGE(k=2) output, then each output merged alone / with drops / with everything dropped / with itself / with three fixed partners in both orders); states de-duplicated per worker by exact byte image; each state is loaded from memory (exact-capacity copy; and embedded in a larger buffer with other bytes around it) and from a file-backed io.ReaderAt and fully observed; " +
			"further depth-0 families: R0-EXTREME, R0-ALIGN (data section / file length exactly k x 4 KiB..1 MiB), R0-ZOO; the loaded segment (memory- and file-backed) is persisted again with a nil and with an open channel; HUGE-200K: 200 000 documents under a probe oracle (count; stored fields, doc values, _id postings of the first and last two documents of every stored block); states = distinct byte images per worker, transitions = build/merge operations; non-trivial = every state (degenerate shapes counted separately in counters.degenerate_states)",
		Assumptions: commonAssumptions, Budget: qBudget, Run: runC04,
	})
	register(&explore.Prop{
		ID: "C11", Level: levelMC, Explorer: "E1 + reachability over segment states",
		Rule: "same reachable state space as C04; for each state the persisted file is checked: 44-byte footer, CRC-32/IEEE of all preceding bytes in the last 4 bytes, footer numDocs/version/chunkMode equal to the loaded segment's accessors, returned byte count (also into *bufio.Writer destinations of three sizes, empty or already holding bytes), Load(bytes).WriteTo reproduces the bytes exactly (memory- and file-backed, two load/persist rounds), and repeated WriteTo calls on one and the same segment object (built or loaded) write identical files; " +
			"every state's built and loaded segment is also written to destinations that fill up after k bytes and then to a good one (same file), and every third WriteTo passes an open, never closed channel; " +
			"states/transitions as C04",
		Assumptions: commonAssumptions, Budget: qBudget, Run: runC11,
	})
}

func runC04(c *explore.Ctx) {
	if !c.Replay || c.ReplayScope == "HUGE-200K" {
		c04Huge(c)
		if c.Replay {
			return
		}
	}
	reach(c, func(scope string, idx int64, st *state) {
		if st.n != int64(len(st.bytes)) {
			c.Violate(scope, idx, "C04/byte-count", fmt.Sprintf("WriteTo reported %d bytes, wrote %d", st.n, len(st.bytes)), st.desc)
			return
		}
		want := obs.Expected(st.want)
		zs := ""
		if st.merged && len(st.want.Docs) == 0 {
			zs = "/zero-survivors"
		}
		if st.orig != nil {
			o, err := observe(st.orig)
			if err != nil {
				c.Violate(scope, idx, sigOf("C04", "observe-original", "error: "+err.Error()), err.Error(), st.desc)
				return
			}
			if d := obs.Diff(o, want, obs.CAll); d != "" {
				c.Violate(scope, idx, sigOf("C04", "original-vs-model", d), d, st.desc)
				return
			}
			want = o
		}
		lm, err := loadMem(st.bytes)
		if err != nil {
			c.Violate(scope, idx, sigOf("C04", "load", "error: "+err.Error())+"/mem"+zs, err.Error(), st.desc)
			return
		}
		om, err := observe(lm)
		if err != nil {
			c.Violate(scope, idx, sigOf("C04", "observe-mem", "error: "+err.Error())+zs, err.Error(), st.desc)
			return
		}
		c.Outcome(explore.Hash(om.String()))
		if d := obs.Diff(om, want, obs.CAll); d != "" {
			c.Violate(scope, idx, sigOf("C04", "loaded-mem", d), d, st.desc)
			return
		}
		lf, closeF, err := loadFile(st.bytes)
		if err != nil {
			c.Violate(scope, idx, sigOf("C04", "load", "error: "+err.Error())+"/file"+zs, err.Error(), st.desc)
			return
		}
		defer closeF()
		of, err := observe(lf)
		if err != nil {
			c.Violate(scope, idx, sigOf("C04", "observe-file", "error: "+err.Error())+zs, err.Error(), st.desc)
			return
		}
		if d := obs.Diff(of, want, obs.CAll); d != "" {
			c.Violate(scope, idx, sigOf("C04", "loaded-file", d), d, st.desc)
			return
		}
		// a loaded segment is a segment too: WriteTo on it (memory-backed and file-backed) succeeds,
		// reports what it wrote, and what it wrote loads and reads like the original
		for bi, l2 := range []segment.Segment{lm, lf, lm, lf} {
			backing := [...]string{"mem", "file", "mem/open-channel", "file/open-channel"}[bi]
			var ch chan struct{}
			if bi >= 2 {
				ch = make(chan struct{}) // open, never closed: as good as nil
			}
			b2, n2, err := persistCh(l2, ch)
			c.R.Transitions++
			if err != nil {
				c.Violate(scope, idx, sigOf("C04", "persist-loaded-"+backing, "error: "+err.Error())+zs, err.Error(), st.desc)
				return
			}
			if n2 != int64(len(b2)) {
				c.Violate(scope, idx, "C04/persist-loaded-"+backing+"/byte-count", fmt.Sprintf("WriteTo of the %s-backed loaded segment reported %d, wrote %d", backing, n2, len(b2)), st.desc)
				return
			}
			if bytes.Equal(b2, st.bytes) {
				continue // the image observed above
			}
			l3, err := loadMem(b2)
			if err != nil {
				c.Violate(scope, idx, sigOf("C04", "load-repersisted-"+backing, "error: "+err.Error())+zs, err.Error(), st.desc)
				return
			}
			o3, err := observe(l3)
			if err != nil {
				c.Violate(scope, idx, sigOf("C04", "observe-repersisted-"+backing, "error: "+err.Error())+zs, err.Error(), st.desc)
				return
			}
			if d := obs.Diff(o3, want, obs.CAll); d != "" {
				c.Violate(scope, idx, sigOf("C04", "repersisted-"+backing, d), d, st.desc)
				return
			}
		}
		// the image embedded in a larger buffer with other bytes before and after it (spare capacity
		// beyond the file: anything that reads by cap() or past the footer sees garbage, not a panic)
		big := make([]byte, len(st.bytes)+64)
		for i := range big {
			big[i] = 0xA5
		}
		copy(big[17:], st.bytes)
		var le segment.Segment
		if msg := explore.Guard(func() { le, err = ice.Load(segment.NewDataBytes(big[17 : 17+len(st.bytes)])) }); msg != "" || err != nil {
			c.Violate(scope, idx, sigOf("C04", "load", "error: "+errText(msg, err))+"/embedded"+zs, errText(msg, err), st.desc)
			return
		}
		oe, err := observe(le)
		if err != nil {
			c.Violate(scope, idx, sigOf("C04", "observe-embedded", "error: "+err.Error())+zs, err.Error(), st.desc)
			return
		}
		if d := obs.Diff(oe, want, obs.CAll); d != "" {
			c.Violate(scope, idx, sigOf("C04", "loaded-embedded", d), d, st.desc)
		}
	})
}

type segMeta interface {
	NumDocs() uint64
	Version() uint32
	ChunkMode() uint32
	CRC() uint32
}

func runC11(c *explore.Ctx) {
	reach(c, func(scope string, idx int64, st *state) {
		b := st.bytes
		if st.n != int64(len(b)) {
			c.Violate(scope, idx, "C11/byte-count", fmt.Sprintf("WriteTo reported %d bytes, wrote %d", st.n, len(b)), st.desc)
			return
		}
		if len(b) < 44 {
			c.Violate(scope, idx, "C11/short-file", fmt.Sprintf("file has %d bytes", len(b)), st.desc)
			return
		}
		crc := crc32.ChecksumIEEE(b[:len(b)-4])
		if got := binary.BigEndian.Uint32(b[len(b)-4:]); got != crc {
			where := "built"
			if st.merged {
				where = "merged"
			}
			c.Violate(scope, idx, "C11/crc/"+where, fmt.Sprintf("stored CRC %08x, CRC-32 of preceding bytes %08x", got, crc), st.desc)
			return
		}
		ft := b[len(b)-44:] // numDocs 8 | stored 8 | fields 8 | docvalues 8 | chunk mode 4 | version 4 | crc 4
		fNumDocs := binary.BigEndian.Uint64(ft[0:8])
		fChunk := binary.BigEndian.Uint32(ft[32:36])
		fVer := binary.BigEndian.Uint32(ft[36 : 40-0][0:4])
		c.Outcome(explore.Hash(string(ft)))
		for _, backing := range []string{"mem", "file"} {
			var l segment.Segment
			var err error
			closeF := func() {}
			if backing == "mem" {
				l, err = loadMem(b)
			} else {
				l, closeF, err = loadFile(b)
			}
			if err != nil {
				c.Violate(scope, idx, sigOf("C11", "load-"+backing, "error: "+err.Error()), err.Error(), st.desc)
				return
			}
			m, ok := l.(segMeta)
			if !ok {
				closeF()
				c.Violate(scope, idx, "C11/no-accessors", "loaded segment lacks NumDocs/Version/ChunkMode", st.desc)
				return
			}
			if m.NumDocs() != fNumDocs || m.Version() != fVer || m.ChunkMode() != fChunk || fVer != ice.Version ||
				fNumDocs != uint64(len(st.want.Docs)) || fChunk != st.mode || l.Count() != fNumDocs {
				closeF()
				c.Violate(scope, idx, "C11/footer-fields", fmt.Sprintf("footer numDocs=%d version=%d chunkMode=%d; segment NumDocs=%d Version=%d ChunkMode=%d; expected docs=%d mode=%d",
					fNumDocs, fVer, fChunk, m.NumDocs(), m.Version(), m.ChunkMode(), len(st.want.Docs), st.mode), st.desc)
				return
			}
			// re-persist, twice
			cur := l
			for round := 1; round <= 2; round++ {
				b2, n2, err := persist(cur)
				if err != nil {
					closeF()
					c.Violate(scope, idx, sigOf("C11", "repersist-"+backing, "error: "+err.Error()), err.Error(), st.desc)
					return
				}
				if n2 != int64(len(b2)) {
					closeF()
					c.Violate(scope, idx, "C11/repersist-byte-count", fmt.Sprintf("round %d: reported %d wrote %d", round, n2, len(b2)), st.desc)
					return
				}
				if !bytes.Equal(b2, b) {
					closeF()
					what := "differs"
					if len(b2) == len(b) && bytes.Equal(b2[:len(b)-4], b[:len(b)-4]) {
						what = "differs-only-in-crc"
					}
					c.Violate(scope, idx, "C11/repersist/"+what, fmt.Sprintf("round %d (%s-backed): re-persisted file %s (len %d vs %d)", round, backing, what, len(b2), len(b)), st.desc)
					return
				}
				// destinations that are themselves buffered writers (bufio.NewWriter returns its argument
				// when that already is a large enough *bufio.Writer): small, exactly the default size, large,
				// and one that already holds bytes the caller wrote before
				if round == 1 {
					for _, bs := range []int{16, 4096, 1 << 20} {
						for _, pending := range []int{0, 3} {
							var sink bytes.Buffer
							bw := bufio.NewWriterSize(&sink, bs)
							bw.Write(make([]byte, pending))
							var nb int64
							var werr error
							if msg := explore.Guard(func() { nb, werr = cur.WriteTo(bw, nil) }); msg != "" {
								werr = fmt.Errorf("%s", msg)
							}
							bw.Flush()
							if werr != nil || nb != int64(len(b)) || sink.Len() != pending+len(b) || !bytes.Equal(sink.Bytes()[pending:], b) {
								closeF()
								c.Violate(scope, idx, "C11/buffered-destination", fmt.Sprintf("WriteTo(*bufio.Writer size %d holding %d bytes): err=%v returned n=%d, file has %d bytes, destination received %d, identical=%v", bs, pending, werr, nb, len(b), sink.Len()-pending, sink.Len() >= pending && bytes.Equal(sink.Bytes()[pending:], b)), st.desc)
								return
							}
						}
					}
				}
				// the same object persisted again must write the same file (a segment is immutable,
				// however often it is persisted)
				for again := 2; again <= 3; again++ {
					var ch chan struct{}
					if again == 3 {
						ch = make(chan struct{}) // an open channel that is never closed
					}
					b3, n3, err := persistCh(cur, ch)
					if err != nil || n3 != int64(len(b3)) || !bytes.Equal(b3, b) {
						closeF()
						c.Violate(scope, idx, "C11/repersist-same-object", fmt.Sprintf("round %d (%s-backed): WriteTo call #%d (the third with an open channel) on the same segment: err=%v n=%d len=%d identical=%v", round, backing, again, err, n3, len(b3), bytes.Equal(b3, b)), st.desc)
						return
					}
				}
				if round == 1 {
					cur, err = loadMem(b2)
					if err != nil {
						closeF()
						c.Violate(scope, idx, sigOf("C11", "reload", "error: "+err.Error()), err.Error(), st.desc)
						return
					}
				}
			}
			closeF()
		}
		// WriteTo calls that FAIL part-way (the destination takes only the first k bytes), then a good one
		// on the same object: the file is the same as ever (a segment remembers nothing of a failed write)
		{
			var subjects []segment.Segment
			var subjNames []string
			if st.orig != nil {
				subjects, subjNames = append(subjects, st.orig), append(subjNames, "built")
			}
			if l, err := loadMem(b); err == nil {
				subjects, subjNames = append(subjects, l), append(subjNames, "loaded")
			}
			limits := []int{len(b) / 2, len(b) - 1}
			if len(b) > 1<<16 {
				limits = []int{0, 4096, len(b) / 2, len(b) - 45, len(b) - 44, len(b) - 1}
			}
			for si, sg := range subjects {
				for _, lim := range limits {
					if lim < 0 {
						continue
					}
					lw := &limitWriter{limit: lim}
					var ferr error
					msg := explore.Guard(func() { _, ferr = sg.WriteTo(lw, nil) })
					c.R.Transitions++
					if msg != "" {
						c.Violate(scope, idx, sigOf("C11", "failed-write", "error: "+msg), msg, st.desc)
						return
					}
					_ = ferr // whether and how the failure is reported is C12's business
				}
				b4, n4, err := persist(sg)
				if err != nil || n4 != int64(len(b4)) || !bytes.Equal(b4, b) {
					c.Violate(scope, idx, "C11/repersist-after-failed-writes/"+subjNames[si], fmt.Sprintf("WriteTo on the %s segment after %d failed WriteTo calls (destination full after %v bytes): err=%v n=%d len=%d identical=%v", subjNames[si], len(limits), limits, err, n4, len(b4), bytes.Equal(b4, b)), st.desc)
					return
				}
			}
		}
		if st.orig != nil {
			for again := 2; again <= 3; again++ {
				var ch chan struct{}
				if again == 3 {
					ch = make(chan struct{})
				}
				b3, n3, err := persistCh(st.orig, ch)
				if err != nil || n3 != int64(len(b3)) || !bytes.Equal(b3, b) {
					c.Violate(scope, idx, "C11/repersist-same-object/built", fmt.Sprintf("WriteTo call #%d (the third with an open channel) on the same built segment: err=%v n=%d len=%d identical=%v", again, err, n3, len(b3), bytes.Equal(b3, b)), st.desc)
					return
				}
			}
			if m, ok := st.orig.(segMeta); ok {
				if m.NumDocs() != fNumDocs || m.ChunkMode() != fChunk || m.Version() != fVer {
					c.Violate(scope, idx, "C11/footer-fields-original", "in-memory segment accessors disagree with the footer it writes", st.desc)
				}
			}
		}
	})
}

var _ = os.Remove

// alignBatch searches a two-document batch whose persisted length minus off is exactly target: one
// stored value of incompressible bytes carries the bulk, its length is corrected by the remaining
// difference until the length fits (deterministic; nil when 40 corrections do not reach it).
func alignBatch(target, off int) ([]model.Doc, segment.Segment, []byte, int64) {
	mk := func(l, pad int) []model.Doc {
		v := make([]byte, l)
		x := uint32(target*31 + off + 7)
		for i := range v {
			x = x*1664525 + 1013904223
			v[i] = byte(x >> 24)
		}
		return []model.Doc{
			{gen.IDField("g", 0), {N: "a", Len: 1, St: true, Val: v, Terms: []model.Term{{T: "x", Freq: 1}}}},
			{gen.IDField("g", 1), {N: "a", Len: 1, St: true, Val: []byte(strings.Repeat("p", pad)), Terms: []model.Term{{T: "y", Freq: 1}}}},
		}
	}
	l, pad := target-400, 1
	if l < 16 {
		l = 16
	}
	for it := 0; it < 40; it++ {
		batch := mk(l, pad)
		seg, err := build(batch, 1025)
		if err != nil {
			return nil, nil, nil, 0
		}
		b, nn, err := persist(seg)
		if err != nil {
			return nil, nil, nil, 0
		}
		d := target - (len(b) - off)
		if d == 0 {
			return batch, seg, b, nn
		}
		if l+d < 16 {
			return nil, nil, nil, 0
		}
		if it%4 == 3 && d > 0 && d < 8 {
			pad += d // a different handle when the main one oscillates around a length-prefix boundary
		} else {
			l += d
		}
	}
	return nil, nil, nil, 0
}
