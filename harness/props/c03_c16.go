package props

import (
	"bytes"
	"fmt"

	"github.com/RoaringBitmap/roaring"
	segment "github.com/blugelabs/bluge_segment_api"
	ice "github.com/blugelabs/ice/v2"

	"verifharness/explore"
	"verifharness/gen"
	"verifharness/model"
	"verifharness/obs"
)

func init() {
	register(&explore.Prop{
		ID: "C03", Level: levelMC, Explorer: "E1 input-space enumerator",
		Rule: "MERGE(k,K) sweep, MERGE-LARGE and MERGE-ALIAS as C02 through the public Merge(...).WriteTo/DocumentNumbers API (default mode; the same Merger then writes a second time, and another Merger retries after a failed WriteTo with an unrelated Merger used in between: same bytes, same mapping) and through the chunk-mode hook; oracle: one slice per input of the input's length, dropped => MaxInt64, survivors numbered 0,1,2.. in (segment, doc) order, Count == #survivors, and the `_id` stored value and `_id` term of every surviving old document are found at exactly the reported new number; " +
			"distinct = distinct (configuration, segment list, bitmaps); non-trivial = as C02",
		Assumptions: commonAssumptions, Budget: qBudget, Run: runC03,
	})
	register(&explore.Prop{
		ID: "C16", Level: levelMC, Explorer: "E1 input-space enumerator",
		Rule: "built, persisted+loaded, merged and merged-again segments of the MIX/MERGE scopes (and MERGE-EXTREME: frequencies up to 2^40) with field length == sum of term frequencies; CollectionStats of every field (and an unknown one) compared with the reference model's two definitions (built: docs carrying the field / sum of lengths; merged: survivors with >=1 term / sum of freq); CollectionStats.Merge checked on every ordered pair of a measured value set (<=40 values, incl. known-but-empty fields); " +
			"distinct = distinct case; non-trivial = some term has freq>=2 or occurs in >=2 segments or a document is dropped",
		Assumptions: commonAssumptions, Budget: qBudget, Run: runC16,
	})
}

type idTerm struct{ f, t string }

func (t idTerm) Field() string { return t.f }
func (t idTerm) Term() []byte  { return []byte(t.t) }

func docID(d model.Doc) (string, bool) {
	for _, f := range d {
		if f.N == "_id" && len(f.Terms) == 1 {
			return f.Terms[0].T, true
		}
	}
	return "", false
}

func checkDocNums(c *explore.Ctx, scope string, idx int64, r *mergeRun, nums [][]uint64, loaded segment.Segment, cas string) {
	if len(nums) != len(r.lsegs) {
		sig := "C03/docnums/wrong-outer-length"
		if r.zeroSurvivors() {
			sig += "/zero-survivors"
		}
		c.Violate(scope, idx, sig, fmt.Sprintf("DocumentNumbers has %d slices for %d input segments", len(nums), len(r.lsegs)), cas)
		return
	}
	for i := range nums {
		if len(nums[i]) != len(r.wantNums[i]) {
			c.Violate(scope, idx, "C03/docnums/wrong-inner-length", fmt.Sprintf("segment %d: %d entries for %d documents", i, len(nums[i]), len(r.wantNums[i])), cas)
			return
		}
		for j := range nums[i] {
			if nums[i][j] != r.wantNums[i][j] {
				c.Violate(scope, idx, "C03/docnums/wrong-value", fmt.Sprintf("segment %d doc %d: got %d want %d (all: got %v want %v)", i, j, nums[i][j], r.wantNums[i][j], nums, r.wantNums), cas)
				return
			}
		}
	}
	if loaded == nil {
		return
	}
	if loaded.Count() != uint64(len(r.want.Docs)) {
		c.Violate(scope, idx, "C03/count", fmt.Sprintf("Count()=%d survivors=%d", loaded.Count(), len(r.want.Docs)), cas)
		return
	}
	// content check, independent of the model's stored-field expectations
	for i, b := range r.batches {
		for j, d := range b {
			nn := nums[i][j]
			if nn == model.Dropped {
				continue
			}
			id, ok := docID(d)
			if !ok {
				continue
			}
			found := false
			msg := explore.Guard(func() {
				loaded.VisitStoredFields(nn, func(f string, v []byte) bool {
					if f == "_id" && string(v) == id {
						found = true
					}
					return true
				})
			})
			if msg != "" || !found {
				c.Violate(scope, idx, "C03/content/stored", fmt.Sprintf("old doc (%d,%d) id %q not stored at new number %d %s", i, j, id, nn, msg), cas)
				return
			}
			var bmDesc string
			msg = explore.Guard(func() {
				bm, err := loaded.DocsMatchingTerms([]segment.Term{idTerm{"_id", id}})
				if err != nil {
					bmDesc = err.Error()
				} else if (bm.GetCardinality() != 1 && !r.alias) || !bm.Contains(uint32(nn)) {
					bmDesc = bm.String()
				}
			})
			if msg != "" || bmDesc != "" {
				c.Violate(scope, idx, "C03/content/term", fmt.Sprintf("old doc (%d,%d) id term %q not at new number %d: %s %s", i, j, id, nn, bmDesc, msg), cas)
				return
			}
		}
	}
}

func runC03(c *explore.Ctx) {
	check := func(scope string, idx int64, r *mergeRun) {
		cas := r.String()
		if r.err != nil {
			c.Violate(scope, idx, sigOf("C03", "merge", "error: "+r.err.Error()), r.err.Error(), cas)
			return
		}
		if r.lerr != nil {
			c.Violate(scope, idx, sigOf("C03", "load", "error: "+r.lerr.Error()), r.lerr.Error(), cas)
			return
		}
		c.Outcome(explore.Hash(fmt.Sprint(r.nums)))
		checkDocNums(c, scope, idx, r, r.nums, r.loaded, cas)
		// the public API path: Merge(...).WriteTo + DocumentNumbers (default chunk mode)
		if r.cfg.Name == "prod" || r.alias {
			var nums [][]uint64
			var b []byte
			var err error
			var nums2 [][]uint64
			var b2 []byte
			var err2 error
			msg := explore.Guard(func() {
				m := ice.Merge(r.segs, r.drops, 4096)
				var w sliceWriter
				_, err = m.WriteTo(&w, nil)
				b = w.b
				nums = m.DocumentNumbers()
				if err == nil {
					// the same Merger asked to write again: same file, same mapping
					keep := make([][]uint64, len(nums))
					for i := range nums {
						keep[i] = append([]uint64(nil), nums[i]...)
					}
					var w2 sliceWriter
					_, err2 = m.WriteTo(&w2, nil)
					b2, nums2, nums = w2.b, m.DocumentNumbers(), keep
				}
			})
			if msg != "" || err != nil {
				c.Violate(scope, idx, sigOf("C03", "public-merge", "error: "+errText(msg, err)), errText(msg, err), cas)
				return
			}
			// a FAILED WriteTo (the writer rejects everything) followed by a retry on the same Merger, with
			// another Merger created and used in between: the retry's file and mapping must be right
			var b3 []byte
			var nums3 [][]uint64
			var err3 error
			msg3 := explore.Guard(func() {
				m := ice.Merge(r.segs, r.drops, 16)
				_, ferr := m.WriteTo(failingWriter{}, nil)
				other := ice.Merge(r.segs[:1], nil2(1), 16)
				var wo sliceWriter
				other.WriteTo(&wo, nil)
				var w3 sliceWriter
				_, err3 = m.WriteTo(&w3, nil)
				b3, nums3 = w3.b, m.DocumentNumbers()
				_ = other.DocumentNumbers()
				if ferr == nil && len(b) > 0 {
					err3 = fmt.Errorf("WriteTo to a writer that rejects every write reported success")
				}
			})
			if msg3 != "" || err3 != nil || !bytes.Equal(b, b3) || fmt.Sprint(nums) != fmt.Sprint(nums3) {
				c.Violate(scope, idx, "C03/retry-after-failed-WriteTo-differs", fmt.Sprintf("after a failed WriteTo and an unrelated Merger in between: %s err=%v bytes equal=%v mapping first=%v retry=%v", msg3, err3, bytes.Equal(b, b3), nums, nums3), cas)
				return
			}
			if err2 != nil || !bytes.Equal(b, b2) || fmt.Sprint(nums) != fmt.Sprint(nums2) {
				c.Violate(scope, idx, "C03/second-WriteTo-differs", fmt.Sprintf("second WriteTo on the same Merger: err=%v bytes equal=%v mapping first=%v second=%v", err2, bytes.Equal(b, b2), nums, nums2), cas)
				return
			}
			l, err := loadMem(b)
			if err != nil {
				c.Violate(scope, idx, sigOf("C03", "public-load", "error: "+err.Error()), err.Error(), cas)
				return
			}
			checkDocNums(c, scope, idx, r, nums, l, cas+" [public API]")
		}
		if r.zeroSurvivors() {
			c.Count("zero_survivor_merges")
		}
	}
	if c.Thorough() {
		mergeSweep(c, 2, 12, 2, mergeCfgsThorough, check)
		mergeSweep(c, 3, 4, 2, mergeCfgsQuick[:1], check)
	} else {
		mergeSweep(c, 2, 6, 2, mergeCfgsQuick, check)
		mergeSweep(c, 3, 4, 1, mergeCfgsQuick[:1], check)
		mergeSweep(c, 4, 3, 1, mergeCfgsQuick[:1], check)
	}
	largeMerges(c, check)
	aliasMerges(c, check)
	againMerges(c, check)
}

type failingWriter struct{}

func (failingWriter) Write(p []byte) (int, error) { return 0, fmt.Errorf("rejected") }

type sliceWriter struct{ b []byte }

func (w *sliceWriter) Write(p []byte) (int, error) { w.b = append(w.b, p...); return len(p), nil }

// ---- C16 ----

func statsNontrivial(r *mergeRun) bool {
	for _, s := range r.specs {
		if len(s.Drops) > 0 {
			return true
		}
	}
	for _, b := range r.batches {
		for _, d := range b {
			for _, f := range d {
				for _, t := range f.Terms {
					if t.Freq >= 2 {
						return true
					}
				}
			}
		}
	}
	return mergeNontrivial(r)
}

func checkStats(c *explore.Ctx, scope string, idx int64, where string, seg segment.Segment, want *model.LSeg, cas string) bool {
	var got map[string]model.Stats
	var err error
	msg := explore.Guard(func() {
		got = map[string]model.Stats{}
		for _, f := range append(append([]string{}, want.Fields...), "nosuchfield", "") {
			var cs segment.CollectionStats
			cs, err = seg.CollectionStats(f)
			if err != nil {
				return
			}
			got[f] = model.Stats{Total: cs.TotalDocumentCount(), Docs: cs.DocumentCount(), SumTF: cs.SumTotalTermFrequency()}
			// the caller folds other statistics into the object it was handed; the segment's next
			// answer must not have moved
			cs.Merge(cs)
			var cs2 segment.CollectionStats
			cs2, err = seg.CollectionStats(f)
			if err != nil {
				return
			}
			if again := (model.Stats{Total: cs2.TotalDocumentCount(), Docs: cs2.DocumentCount(), SumTF: cs2.SumTotalTermFrequency()}); again != got[f] {
				err = fmt.Errorf("field %q asked again after the caller merged into the first answer: %v, first answer %v", f, again, got[f])
				return
			}
		}
	})
	if msg != "" || err != nil {
		c.Violate(scope, idx, sigOf("C16", where, "error: "+errText(msg, err)), errText(msg, err), cas)
		return false
	}
	c.Outcome(explore.Hash(fmt.Sprint(got)))
	for _, f := range want.Fields {
		if got[f] != want.Stats[f] {
			comp := "docs"
			if got[f].Total != want.Stats[f].Total {
				comp = "total"
			} else if got[f].Docs == want.Stats[f].Docs {
				comp = "sumtf"
			}
			c.Violate(scope, idx, "C16/"+where+"/wrong/"+comp, fmt.Sprintf("field %q: got %+v want %+v", f, got[f], want.Stats[f]), cas)
			return false
		}
	}
	for _, f := range []string{"nosuchfield", ""} {
		if !want.HasField(f) && got[f] != (model.Stats{}) {
			c.Violate(scope, idx, "C16/"+where+"/unknown-field-nonzero", fmt.Sprintf("field %q: got %+v", f, got[f]), cas)
			return false
		}
	}
	return true
}

var c16Other = []model.Doc{gen.MixDoc(3, "n", 0), gen.MixDoc(9, "n", 1), gen.MixDoc(2, "n", 2), gen.MixDoc(5, "n", 3)}

func runC16(c *explore.Ctx) {
	// built and persisted+loaded segments
	K := 8
	if c.Thorough() {
		K = gen.NMix
	}
	for _, m := range []uint32{1025, 1} {
		m := m
		scope := fmt.Sprintf("MIX(%d,3)/%d", K, m)
		gen.Mix(K, 3, "m", func(idx int64, batch []gen.Doc, kinds []int) bool {
			if !c.MineIdx(scope, idx) {
				return true
			}
			c.Eval()
			model.SumFreqLen(batch)
			cas := fmt.Sprintf("%s #%d %s", scope, idx, model.BatchString(batch))
			c.Sample(idx, func() string { return cas })
			ls := model.Build(batch)
			if batchNontrivial(batch) {
				c.Nontrivial()
			}
			seg, err := build(batch, m)
			if err != nil {
				c.Violate(scope, idx, sigOf("C16", "build", "error: "+err.Error()), err.Error(), cas)
				return true
			}
			if !checkStats(c, scope, idx, "built", seg, ls, cas) {
				return true
			}
			// its statistics must not change when another batch is built afterwards (the builder is pooled)
			if _, err := build(c16Other, m); err == nil {
				if !checkStats(c, scope, idx, "built-then-another-build", seg, ls, cas) {
					return true
				}
			}
			b, _, err := persist(seg)
			if err != nil {
				c.Violate(scope, idx, sigOf("C16", "persist", "error: "+err.Error()), err.Error(), cas)
				return true
			}
			l, err := loadMem(b)
			if err != nil {
				c.Violate(scope, idx, sigOf("C16", "load", "error: "+err.Error()), err.Error(), cas)
				return true
			}
			checkStats(c, scope, idx, "loaded", l, ls, cas)
			return !c.Expired()
		})
	}
	// merged, merged-again
	check := func(scope string, idx int64, r *mergeRun) {
		cas := r.String()
		if r.err != nil || r.lerr != nil {
			c.Violate(scope, idx, sigOf("C16", "merge", "error: "+fmt.Sprint(r.err, r.lerr)), fmt.Sprint(r.err, r.lerr), cas)
			return
		}
		if statsNontrivial(r) {
			c.Nontrivial()
			c.R.Nontrivial-- // mergeSweep already counted by its own rule; keep one count per case
		}
		if !checkStats(c, scope, idx, "merged", r.loaded, r.want, cas) {
			return
		}
		// merged again on its own: statistics must be stable
		if len(r.want.Docs) > 0 {
			b, _, _, err := merge([]segment.Segment{r.loaded}, nil2(1), r.cfg.Out)
			if err != nil {
				c.Violate(scope, idx, sigOf("C16", "remerge", "error: "+err.Error()), err.Error(), cas)
				return
			}
			l, err := loadMem(b)
			if err != nil {
				c.Violate(scope, idx, sigOf("C16", "remerge-load", "error: "+err.Error()), err.Error(), cas)
				return
			}
			checkStats(c, scope, idx, "merged-again", l, r.want, cas)
		}
	}
	cfgs := []mergeCfg{{"prod", []uint32{1025}, 0, 1025, true}, {"remerge", []uint32{1025, 1}, 2, 1, true}}
	if c.Thorough() {
		mergeSweep(c, 2, 12, 2, cfgs, check)
		mergeSweep(c, 3, 4, 2, cfgs[:1], check)
	} else {
		mergeSweep(c, 2, 6, 2, cfgs, check)
	}
	extremeMergesOpt(c, check, true) // sums of huge frequencies
	zooEach(c, true, func(idx int64, z *zooSeg) { checkStats(c, "ZOO", idx, "zoo", z.seg, z.want, "ZOO "+z.name) })
	// CollectionStats.Merge adds component-wise
	if c.Shard == 0 || c.Replay {
		statsMergeCheck(c)
	}
}

func nil2(n int) []*roaring.Bitmap { return make([]*roaring.Bitmap, n) }

func statsMergeCheck(c *explore.Ctx) {
	// collect 20 stats values from real segments
	var vals []segment.CollectionStats
	var raw []model.Stats
	gen.Mix(9, 2, "m", func(idx int64, batch []gen.Doc, kinds []int) bool {
		model.SumFreqLen(batch)
		seg, err := build(batch, 1025)
		if err != nil {
			return true
		}
		for _, f := range []string{"_id", "a", "b", "nosuch"} {
			cs, _ := seg.CollectionStats(f)
			s := model.Stats{Total: cs.TotalDocumentCount(), Docs: cs.DocumentCount(), SumTF: cs.SumTotalTermFrequency()}
			dup := false
			for _, r := range raw {
				if r == s {
					dup = true
				}
			}
			if !dup && len(vals) < 40 {
				vals = append(vals, cs)
				raw = append(raw, s)
			}
		}
		return len(vals) < 40
	})
	// the set must contain the shape "field known to the segment but carried by no document"
	shape := false
	for _, r := range raw {
		if r.Total > 0 && r.Docs == 0 {
			shape = true
		}
	}
	if !shape {
		c.R.Error = "C16 stats-merge value set lacks a value with TotalDocumentCount>0 and DocumentCount==0"
		return
	}
	scope := "STATS-MERGE"
	var idx int64
	for i := range vals {
		for j := range vals {
			if c.Replay && !(scope == c.ReplayScope && idx == c.ReplayIndex) {
				idx++
				continue
			}
			c.Eval()
			// fresh receiver with the value of raw[i]
			recv := freshStats(raw[i])
			if recv == nil {
				idx++
				continue
			}
			recv.Merge(vals[j])
			want := model.Stats{Total: raw[i].Total + raw[j].Total, Docs: raw[i].Docs + raw[j].Docs, SumTF: raw[i].SumTF + raw[j].SumTF}
			got := model.Stats{Total: recv.TotalDocumentCount(), Docs: recv.DocumentCount(), SumTF: recv.SumTotalTermFrequency()}
			if got != want {
				c.Violate(scope, idx, "C16/stats-merge/wrong", fmt.Sprintf("%+v.Merge(%+v) = %+v want %+v", raw[i], raw[j], got, want), fmt.Sprintf("pair %d,%d", i, j))
			}
			if o := (model.Stats{Total: vals[j].TotalDocumentCount(), Docs: vals[j].DocumentCount(), SumTF: vals[j].SumTotalTermFrequency()}); o != raw[j] {
				c.Violate(scope, idx, "C16/stats-merge/argument-modified", fmt.Sprintf("argument changed from %+v to %+v", raw[j], o), fmt.Sprintf("pair %d,%d", i, j))
			}
			idx++
		}
	}
	c.Add("stats_merge_pairs", idx)
}

// freshStats returns a new ice CollectionStats holding s, built through the public API:
// the zero stats of an unknown field merged with a carrier of s.
func freshStats(s model.Stats) mergeable {
	seg, err := build(nil, 1025)
	if err != nil {
		return nil
	}
	cs, err := seg.CollectionStats("nosuchfield")
	if err != nil {
		return nil
	}
	m, ok := cs.(mergeable)
	if !ok {
		return nil
	}
	m.Merge(carrier(s))
	return m
}

type mergeable interface {
	segment.CollectionStats
}

type carrier model.Stats

func (s carrier) TotalDocumentCount() uint64          { return s.Total }
func (s carrier) DocumentCount() uint64               { return s.Docs }
func (s carrier) SumTotalTermFrequency() uint64       { return s.SumTF }
func (s carrier) Merge(other segment.CollectionStats) {}

var _ = obs.CAll
