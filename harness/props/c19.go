package props

import (
	"errors"
	"fmt"
	"io"
	"reflect"
	"strings"
	"unsafe"

	"github.com/RoaringBitmap/roaring"
	segment "github.com/blugelabs/bluge_segment_api"
	ice "github.com/blugelabs/ice/v2"

	"verifharness/explore"
	"verifharness/gen"
	"verifharness/model"
	"verifharness/obs"
)

func init() {
	register(&explore.Prop{
		ID: "C19", Level: levelFE, Explorer: "E3 environment-answer enumerator",
		Rule: "file-backed segments (small mixed; 257-doc three-block; the small one with a 190 KiB FST of 10000 more terms; thorough also 1025-doc two-doc-value-chunk) whose segment.Data reads go through a fault-injecting io.ReaderAt; warm-up prefix = every sequence of <=1 (quick) / <=2 (thorough) read operations on the small segment, one fewer on each larger one, drawn from a 19-operation menu (incl. three operations that step a long-lived postings / dictionary iterator) (decides which caches are warm); then for the next operation X the storage fails at EVERY read index of X (on the 190 KiB-FST segment: the first and the last 32 reads of an operation with more than 64), persistently (every later read fails) or transiently (only that read); then EVERY follow-up operation of the menu runs, with the objects X left behind and with fresh objects; " +
			"oracle: X returns an error (what it delivered before is a prefix of the correct result), or an empty result, or the complete correct result; after X and after every follow-up the FST-cache mutex is free (a held mutex would block every later lookup), nothing panics; after a transient fault, follow-ups through fresh objects return the correct result or an error; distinct = (segment, prefix, X, read index, fault kind); non-trivial = the injected fault was actually hit",
		Assumptions: []string{"the injector is installed by reflection into the struct of bluge_segment_api v0.2.0 (pinned in go.sum); harness only, ice untouched", "fail model: ReadAt returns (0, error)", "blocking is detected by the invariant 'mutex free between calls' (VerifMutexFree), not by timeouts; the 300 s per-case watchdog is a backstop"},
		Budget:      qBudget, Run: runC19,
	})
}

var errStorage = errors.New("injected storage read failure")

type faultRA struct {
	b        []byte
	reads    int
	failFrom int // fail every read with index >= failFrom (persistent); -1 off
	failOnly int // fail exactly this read index (transient); -1 off
	hits     int
}

func (f *faultRA) ReadAt(p []byte, off int64) (int, error) {
	i := f.reads
	f.reads++
	if (f.failFrom >= 0 && i >= f.failFrom) || (f.failOnly >= 0 && i == f.failOnly) {
		f.hits++
		return 0, errStorage
	}
	if off < 0 || off > int64(len(f.b)) {
		return 0, io.EOF
	}
	n := copy(p, f.b[off:])
	if n < len(p) {
		return n, io.EOF
	}
	return n, nil
}

// faultData builds a *segment.Data backed by ra (the struct has unexported fields r, sz).
func faultData(ra io.ReaderAt, sz int) *segment.Data {
	d := &segment.Data{}
	v := reflect.ValueOf(d).Elem()
	rf := v.FieldByName("r")
	sf := v.FieldByName("sz")
	if !rf.IsValid() || !sf.IsValid() {
		panic("bluge_segment_api.Data layout changed: fields r/sz not found")
	}
	reflect.NewAt(rf.Type(), unsafe.Pointer(rf.UnsafeAddr())).Elem().Set(reflect.ValueOf(&ra).Elem())
	reflect.NewAt(sf.Type(), unsafe.Pointer(sf.UnsafeAddr())).Elem().SetInt(int64(sz))
	return d
}

// ---- the menu of read operations ----

type c19State struct {
	seg  segment.Segment
	dvr  segment.DocumentValueReader // long-lived reader shared by the DV operations
	pi   segment.PostingsIterator    // long-lived iterator stepped by iterNext / iterAdvance
	di   segment.DictionaryIterator  // long-lived dictionary iterator stepped by dictNext
	last uint64
}

type c19Op struct {
	name string
	// run delivers items one by one through emit; returns the call's error.
	run func(st *c19State, emit func(string)) error
}

func c19Menu(n uint64) []c19Op {
	dictOp := func(field string) c19Op {
		return c19Op{"dict(" + field + ")", func(st *c19State, emit func(string)) error {
			d, err := st.seg.Dictionary(field)
			if err != nil {
				return err
			}
			it := d.Iterator(nil, nil, nil)
			for {
				e, err := it.Next()
				if err != nil {
					return err
				}
				if e == nil {
					return nil
				}
				emit(fmt.Sprintf("%q:%d", e.Term(), e.Count()))
			}
		}}
	}
	storedOp := func(name string, doc func(st *c19State) uint64) c19Op {
		return c19Op{name, func(st *c19State, emit func(string)) error {
			return st.seg.VisitStoredFields(doc(st), func(f string, v []byte) bool {
				emit(fmt.Sprintf("%s=%q", f, v))
				return true
			})
		}}
	}
	dvOp := func(name string, doc func(st *c19State) uint64) c19Op {
		return c19Op{name, func(st *c19State, emit func(string)) error {
			if st.dvr == nil {
				r, err := st.seg.DocumentValueReader([]string{"b", "d"})
				if err != nil {
					return err
				}
				st.dvr = r
			}
			return st.dvr.VisitDocumentValues(doc(st), func(f string, t []byte) {
				emit(fmt.Sprintf("%s:%q", f, t))
			})
		}}
	}
	first := func(*c19State) uint64 { return 0 }
	lastDoc := func(st *c19State) uint64 { return st.last }
	return []c19Op{
		dictOp("a"),
		dictOp("b"),
		{"postings(a,x)", func(st *c19State, emit func(string)) error {
			d, err := st.seg.Dictionary("a")
			if err != nil {
				return err
			}
			pl, err := d.PostingsList([]byte("x"), nil, nil)
			if err != nil {
				return err
			}
			it, err := pl.Iterator(true, true, true, nil)
			if err != nil {
				return err
			}
			for {
				p, err := it.Next()
				if err != nil {
					return err
				}
				if p == nil {
					return nil
				}
				emit(fmt.Sprint(obs.CopyPosting(p)))
			}
		}},
		storedOp("stored(0)", first),
		storedOp("stored(last)", lastDoc),
		dvOp("docvalues(0)", first),
		dvOp("docvalues(last)", lastDoc),
		{"iterNext", func(st *c19State, emit func(string)) error {
			if err := c19Iter(st); err != nil {
				return err
			}
			p, err := st.pi.Next()
			if err != nil {
				return err
			}
			if p == nil {
				emit("end")
			} else {
				emit(fmt.Sprint(obs.CopyPosting(p)))
			}
			return nil
		}},
		{"iterNext2", func(st *c19State, emit func(string)) error { // two steps: consumes a whole 2-document chunk
			if err := c19Iter(st); err != nil {
				return err
			}
			for k := 0; k < 2; k++ {
				p, err := st.pi.Next()
				if err != nil {
					return err
				}
				if p == nil {
					emit("end")
				} else {
					emit(fmt.Sprint(obs.CopyPosting(p)))
				}
			}
			return nil
		}},
		{"iterAdvance", func(st *c19State, emit func(string)) error {
			if err := c19Iter(st); err != nil {
				return err
			}
			p, err := st.pi.Advance(st.last) // straight to the last document: skips across chunks
			if err != nil {
				return err
			}
			if p == nil {
				emit("end")
			} else {
				emit(fmt.Sprint(obs.CopyPosting(p)))
			}
			return nil
		}},
		{"dictNext", func(st *c19State, emit func(string)) error {
			if st.di == nil {
				d, err := st.seg.Dictionary("a")
				if err != nil {
					return err
				}
				st.di = d.Iterator(nil, nil, nil)
			}
			e, err := st.di.Next()
			if err != nil {
				return err
			}
			if e == nil {
				emit("end")
			} else {
				emit(fmt.Sprintf("%q:%d", e.Term(), e.Count()))
			}
			return nil
		}},
		{"stored(nested)", func(st *c19State, emit func(string)) error {
			// a stored-field visit of the last document nested in the first callback of a visit of
			// document 0 (two per-call read contexts are alive at the same time)
			first := true
			var innerErr error
			err := st.seg.VisitStoredFields(0, func(f string, v []byte) bool {
				emit(fmt.Sprintf("outer %s=%q", f, v))
				if first {
					first = false
					innerErr = st.seg.VisitStoredFields(st.last, func(f2 string, v2 []byte) bool {
						emit(fmt.Sprintf("inner %s=%q", f2, v2))
						return false // the inner visitor stops early
					})
				}
				return innerErr == nil
			})
			if err == nil {
				err = innerErr // the operation as a whole reports the nested call's error
			}
			return err
		}},
		{"contains(a)", func(st *c19State, emit func(string)) error {
			d, err := st.seg.Dictionary("a")
			if err != nil {
				return err
			}
			for _, k := range []string{"x", "nosuchterm", ""} {
				ok, err := d.Contains([]byte(k))
				if err != nil {
					return err
				}
				emit(fmt.Sprintf("%q:%v", k, ok))
			}
			return nil
		}},
		{"dictRange(a)", func(st *c19State, emit func(string)) error {
			d, err := st.seg.Dictionary("a")
			if err != nil {
				return err
			}
			it := d.Iterator(nil, []byte("a"), []byte("y"))
			for {
				e, err := it.Next()
				if err != nil {
					return err
				}
				if e == nil {
					return nil
				}
				emit(fmt.Sprintf("%q:%d", e.Term(), e.Count()))
			}
		}},
		{"count+advance(a,x)", func(st *c19State, emit func(string)) error {
			d, err := st.seg.Dictionary("a")
			if err != nil {
				return err
			}
			pl, err := d.PostingsList([]byte("x"), nil, nil)
			if err != nil {
				return err
			}
			emit(fmt.Sprintf("count=%d", pl.Count()))
			it, err := pl.Iterator(true, true, true, nil)
			if err != nil {
				return err
			}
			p, err := it.Advance(st.last)
			if err != nil {
				return err
			}
			if p == nil {
				emit("end")
			} else {
				emit(fmt.Sprint(obs.CopyPosting(p)))
			}
			return nil
		}},
		{"docsMatching", func(st *c19State, emit func(string)) error {
			bm, err := st.seg.DocsMatchingTerms([]segment.Term{pairT{"a", "x"}, pairT{"b", "t1"}, pairT{"_id", "f0"}})
			if err != nil {
				return err
			}
			emit(bm.String())
			return nil
		}},
		{"stats(a)", func(st *c19State, emit func(string)) error {
			cs, err := st.seg.CollectionStats("a")
			if err != nil {
				return err
			}
			emit(fmt.Sprint(cs.TotalDocumentCount(), cs.DocumentCount(), cs.SumTotalTermFrequency()))
			return nil
		}},
		{"writeTo", func(st *c19State, emit func(string)) error {
			var w sliceWriter
			n, err := st.seg.WriteTo(&w, nil)
			if err != nil {
				return err
			}
			emit(fmt.Sprintf("%d bytes %016x", n, explore.Hash(string(w.b))))
			return nil
		}},
		{"merge([S])", func(st *c19State, emit func(string)) error {
			var w sliceWriter
			m := ice.Merge([]segment.Segment{st.seg}, []*roaring.Bitmap{bitmapOf(0)}, 4096)
			n, err := m.WriteTo(&w, nil)
			if err != nil {
				return err
			}
			emit(fmt.Sprintf("%d bytes %016x", n, explore.Hash(string(w.b))))
			return nil
		}},
	}
}

// c19Iter creates the long-lived postings iterator of (a, x) on first use.
func c19Iter(st *c19State) error {
	if st.pi != nil {
		return nil
	}
	d, err := st.seg.Dictionary("a")
	if err != nil {
		return err
	}
	pl, err := d.PostingsList([]byte("x"), nil, nil)
	if err != nil {
		return err
	}
	it, err := pl.Iterator(true, true, true, nil)
	if err != nil {
		return err
	}
	st.pi = it
	return nil
}

// stepOps are operations that advance a long-lived cursor: what a call returns depends on the
// calls before it, so their oracle is membership: every delivered item must be an item of the
// complete correct enumeration (or "end") - a posting/entry of another term or document is not.
var stepOps = map[string]string{"iterNext": "postings(a,x)", "iterNext2": "postings(a,x)", "iterAdvance": "postings(a,x)", "dictNext": "dict(a)"}

type c19Result struct {
	items []string
	err   error
	panic string
}

func runOp(op c19Op, st *c19State) (r c19Result) {
	r.panic = explore.Guard(func() {
		r.err = op.run(st, func(s string) { r.items = append(r.items, s) })
	})
	return
}

func c19Segments(thorough bool) (names []string, images [][]byte, err error) {
	mk := func(name string, batch []model.Doc, mode uint32) error {
		s, err := build(batch, mode)
		if err != nil {
			return err
		}
		b, _, err := persist(s)
		if err != nil {
			return err
		}
		names = append(names, name)
		images = append(images, b)
		return nil
	}
	// term x of field a is in all six documents; with chunk size 2 its postings span three chunks
	small := []model.Doc{gen.MixDoc(2, "f", 0), gen.MixDoc(2, "f", 1), gen.MixDoc(2, "f", 2), gen.MixDoc(2, "f", 3), gen.MixDoc(2, "f", 4), gen.MixDoc(2, "f", 5)}
	small[2] = append(small[2], gen.MixDoc(9, "g", 2)[1])
	small[1] = append(small[1], model.Field{N: "b", Len: 1, Terms: []model.Term{{T: "t1", Freq: 1}}, DV: true})
	if err := mk("small", small, 2); err != nil {
		return nil, nil, err
	}
	blocks := make([]model.Doc, 257)
	for i := range blocks {
		blocks[i] = model.Doc{gen.IDField("f", i), {N: "a", Len: 1, Terms: []model.Term{{T: "x", Freq: 1 + i%2}}, St: true, Val: []byte(fmt.Sprintf("v%d", i))}}
		if i%50 == 0 {
			blocks[i] = append(blocks[i], model.Field{N: "b", Len: 1, Terms: []model.Term{{T: "t1", Freq: 1}}, DV: true})
		}
	}
	if err := mk("257docs", blocks, 1025); err != nil {
		return nil, nil, err
	}
	// the small segment again, with 10000 high-entropy 16-character terms more in field a of one
	// document: the field's FST takes some 190 KiB (anything read in fixed-size pieces, or read ahead
	// up to a limit, behaves differently here), and its dictionary has thousands of entries
	{
		bd := []model.Doc{gen.MixDoc(2, "f", 0), gen.MixDoc(2, "f", 1), gen.MixDoc(2, "f", 2), gen.MixDoc(2, "f", 3), gen.MixDoc(2, "f", 4), gen.MixDoc(2, "f", 5)}
		bd[2] = append(bd[2], gen.MixDoc(9, "g", 2)[1])
		bd[1] = append(bd[1], model.Field{N: "b", Len: 1, Terms: []model.Term{{T: "t1", Freq: 1}}, DV: true})
		var ts []model.Term
		x := uint32(19)
		for k := 0; k < 10000; k++ {
			t := make([]byte, 16)
			for i := range t {
				x = x*1664525 + 1013904223
				t[i] = "0123456789abcdef"[(x>>24)%16]
			}
			ts = append(ts, model.Term{T: "h" + string(t), Freq: 1})
		}
		bd[3] = append(bd[3], model.Field{N: "a", Len: len(ts), Terms: ts})
		if err := mk("bigdict", bd, 2); err != nil {
			return nil, nil, err
		}
	}
	if thorough {
		big := dvcBatch(1025, 0)
		for i := range big {
			if i%100 == 0 {
				big[i] = append(big[i], gen.IDField("f", i), model.Field{N: "a", Len: 1, Terms: []model.Term{{T: "x", Freq: 1}}, St: true, Val: []byte("s")})
			}
		}
		if err := mk("1025docs", big, 1025); err != nil {
			return nil, nil, err
		}
	}
	return names, images, nil
}

func isPrefix(a, b []string) bool {
	if len(a) > len(b) {
		return false
	}
	for i := range a {
		if a[i] != b[i] {
			return false
		}
	}
	return true
}

func runC19(c *explore.Ctx) {
	names, images, err := c19Segments(c.Thorough())
	if err != nil {
		envFail(c, "C19 environment: "+err.Error())
		return
	}
	for si := range images {
		img := images[si]
		// number of documents from the footer
		var nDocs uint64
		for _, x := range img[len(img)-44 : len(img)-36] {
			nDocs = nDocs<<8 | uint64(x)
		}
		menu := c19Menu(nDocs)
		// correct results (fault-free, fresh segment per op)
		correct := make([][]string, len(menu))
		open := func() (*faultRA, *c19State, error) {
			ra := &faultRA{b: img, failFrom: -1, failOnly: -1}
			var seg segment.Segment
			var err error
			if msg := explore.Guard(func() { seg, err = ice.Load(faultData(ra, len(img))) }); msg != "" || err != nil {
				return nil, nil, fmt.Errorf("%s", errText(msg, err))
			}
			return ra, &c19State{seg: seg, last: nDocs - 1}, nil
		}
		for oi, op := range menu {
			_, st, err := open()
			if err != nil {
				envFail(c, "C19 fault-free load: "+err.Error())
				return
			}
			r := runOp(op, st)
			if r.err != nil || r.panic != "" {
				envFail(c, fmt.Sprintf("C19 fault-free %s on %s failed: %v %s", op.name, names[si], r.err, r.panic))
				return
			}
			correct[oi] = r.items
		}
		// faults while the segment is being loaded: Load must report an error (or, if the failed
		// read was not needed, return a segment that answers correctly); it must not panic
		{
			probe := &faultRA{b: img, failFrom: -1, failOnly: -1}
			if msg := explore.Guard(func() { ice.Load(faultData(probe, len(img))) }); msg != "" {
				envFail(c, "C19 fault-free load panicked: "+msg)
				return
			}
			loadReads := probe.reads
			scope := "LOAD-" + names[si]
			var lidx int64
			for kind := 0; kind < 2; kind++ {
				for ri := 0; ri < loadReads; ri++ {
					my := lidx
					lidx++
					if !c.MineIdx(scope, my) {
						continue
					}
					c.Eval()
					c.Nontrivial()
					ra := &faultRA{b: img, failFrom: -1, failOnly: -1}
					if kind == 0 {
						ra.failFrom = ri
					} else {
						ra.failOnly = ri
					}
					var seg segment.Segment
					var err error
					cas := fmt.Sprintf("%s #%d Load with %s failure at its read %d of %d", scope, my, []string{"persistent", "transient"}[kind], ri, loadReads)
					if msg := explore.Guard(func() { seg, err = ice.Load(faultData(ra, len(img))) }); msg != "" {
						c.Violate(scope, my, sigOf("C19", "load", msg), msg, cas)
						continue
					}
					if err == nil && seg != nil && kind == 1 {
						// loaded although a read failed: it must then answer correctly
						st := &c19State{seg: seg, last: nDocs - 1}
						for oi, op := range menu {
							if _, isStep := stepOps[op.name]; isStep {
								continue
							}
							r := runOp(op, st)
							if r.panic != "" || (r.err == nil && strings.Join(r.items, "\x00") != strings.Join(correct[oi], "\x00")) {
								c.Violate(scope, my, "C19/load/segment-loaded-after-failed-read-answers-wrong", fmt.Sprintf("%s: %v %s %q", op.name, r.err, r.panic, r.items), cas)
								break
							}
						}
					}
					c.Count("load_faults_enumerated")
				}
			}
		}
		maxPrefix := 1 - si // quick: <=1 on the small segment, 0 on the 257-document one
		if c.Thorough() {
			maxPrefix = 2 - si
		}
		if maxPrefix < 0 {
			maxPrefix = 0
		}
		var prefixes [][]int
		for n := 0; n <= maxPrefix; n++ {
			gen.Pow(len(menu), n, func(v []int) bool {
				prefixes = append(prefixes, append([]int(nil), v...))
				return true
			})
		}
		scope := "SEG-" + names[si]
		var idx int64
		for _, pre := range prefixes {
			for xi, x := range menu {
				// count the reads of X after the prefix
				c19PoolReset()
				ra, st, err := open()
				if err != nil {
					c.R.Error = err.Error()
					return
				}
				for _, p := range pre {
					runOp(menu[p], st)
				}
				before := ra.reads
				runOp(x, st)
				nReads := ra.reads - before
				// on the big-dictionary segment an operation that reads every term's postings (the merge)
				// has thousands of reads: there the first 32 and the last 32 of them fail, the rest not
				var ris []int
				for ri := 0; ri < nReads; ri++ {
					if names[si] == "bigdict" && nReads > 64 && ri >= 32 && ri < nReads-32 {
						continue
					}
					ris = append(ris, ri)
				}
				if len(ris) < nReads && c.Shard == 0 {
					c.Add("read_indices_not_failed_on_bigdict", int64(2*(nReads-len(ris))))
				}
				for kind := 0; kind < 2; kind++ {
					for _, ri := range ris {
						my := idx
						idx++
						if !c.MineIdx(scope, my) {
							continue
						}
						if c.Expired() {
							return
						}
						c.Eval()
						var preNames []string
						for _, p := range pre {
							preNames = append(preNames, menu[p].name)
						}
						kindName := []string{"persistent", "transient"}[kind]
						cas := fmt.Sprintf("%s #%d prefix=%v then %s with %s failure at its read %d of %d", scope, my, preNames, x.name, kindName, ri, nReads)
						c.Sample(my, func() string { return cas })
						c19Case(c, scope, my, cas, open, menu, correct, pre, xi, ri, kind == 1)
					}
				}
			}
		}
	}
}

// c19PoolReset is installed by the instrumented build (c19_pools.go).
var c19PoolReset = func() {}

func c19Case(c *explore.Ctx, scope string, idx int64, cas string, open func() (*faultRA, *c19State, error),
	menu []c19Op, correct [][]string, pre []int, xi, ri int, transient bool) {
	c19PoolReset()
	ra, st, err := open()
	if err != nil {
		c.R.Error = err.Error()
		return
	}
	for _, p := range pre {
		runOp(menu[p], st)
	}
	if transient {
		ra.failOnly = ra.reads + ri
	} else {
		ra.failFrom = ra.reads + ri
	}
	x := menu[xi]
	memberOf := func(opName string, items []string) string {
		full, isStep := stepOps[opName]
		if !isStep {
			return ""
		}
		set := map[string]bool{"end": true}
		for mi, m := range menu {
			if m.name == full {
				for _, it := range correct[mi] {
					set[it] = true
				}
			}
		}
		for _, it := range items {
			if !set[it] {
				return it
			}
		}
		return ""
	}
	r := runOp(x, st)
	if ra.hits > 0 {
		c.Nontrivial()
	}
	c.R.Transitions++
	where := "failing-call(" + opKind(x.name) + ")"
	if r.panic != "" {
		c.Violate(scope, idx, sigOf("C19", where, r.panic), r.panic, cas)
		return
	}
	if _, isStep := stepOps[x.name]; isStep {
		if bad := memberOf(x.name, r.items); bad != "" {
			c.Violate(scope, idx, "C19/"+where+"/foreign-item", fmt.Sprintf("delivered %q which is not an item of the correct enumeration (err=%v)", bad, r.err), cas)
			return
		}
	} else if r.err != nil {
		if !isPrefix(r.items, correct[xi]) {
			c.Violate(scope, idx, "C19/"+where+"/delivered-not-a-prefix", fmt.Sprintf("delivered %q before the error, correct result %q", r.items, correct[xi]), cas)
			return
		}
		c.Count("failing_call_returned_error")
	} else if len(r.items) == 0 {
		c.Count("failing_call_returned_empty")
	} else if strings.Join(r.items, "\x00") == strings.Join(correct[xi], "\x00") {
		c.Count("failing_call_returned_complete")
	} else {
		c.Violate(scope, idx, "C19/"+where+"/partial-result-without-error", fmt.Sprintf("returned nil error with %q, correct result %q", r.items, correct[xi]), cas)
		return
	}
	if !ice.VerifMutexFree(st.seg) {
		c.Violate(scope, idx, "C19/"+where+"/mutex-held-after-failed-call", "the segment's FST-cache mutex is still locked after the call returned: every later Dictionary lookup blocks forever", cas)
		return
	}
	// follow-ups: with the objects left behind, then with fresh objects
	for fi, f := range menu {
		for fresh := 0; fresh < 2; fresh++ {
			fst := st
			if fresh == 1 {
				fst = &c19State{seg: st.seg, last: st.last}
			}
			c.R.Transitions++
			fr := runOp(f, fst)
			fwhere := "follow-up(" + opKind(f.name) + ")"
			if fr.panic != "" {
				c.Violate(scope, idx, sigOf("C19", fwhere, fr.panic), fmt.Sprintf("follow-up %s (fresh objects=%v): %s", f.name, fresh == 1, fr.panic), cas)
				return
			}
			if !ice.VerifMutexFree(st.seg) {
				c.Violate(scope, idx, "C19/"+fwhere+"/mutex-held", fmt.Sprintf("mutex held after follow-up %s", f.name), cas)
				return
			}
			// a cursor that lived through a failed call is judged only on "no panic, not blocked" (the
			// property speaks about the segment staying usable); fresh cursors on the same segment
			// must deliver items of the correct enumeration once the storage is healthy again
			if bad := memberOf(f.name, fr.items); bad != "" && fresh == 1 && transient {
				c.Violate(scope, idx, "C19/"+fwhere+"/foreign-item", fmt.Sprintf("follow-up %s with fresh objects delivered %q which is not an item of the correct enumeration (err=%v)", f.name, bad, fr.err), cas)
				return
			} else if bad != "" {
				c.Count("same_cursor_misaligned_after_failed_call")
			}
			if _, isStep := stepOps[f.name]; isStep {
				continue
			}
			if transient && fresh == 1 && fr.err == nil && strings.Join(fr.items, "\x00") != strings.Join(correct[fi], "\x00") {
				c.Violate(scope, idx, "C19/"+fwhere+"/wrong-after-transient-failure", fmt.Sprintf("storage is healthy again, fresh objects, yet %s returned %q instead of %q", f.name, fr.items, correct[fi]), cas)
				return
			}
			if transient && fresh == 1 && fr.err != nil {
				c.Count("followup_error_after_transient")
			}
		}
	}
}

func opKind(name string) string {
	if i := strings.IndexByte(name, '('); i > 0 {
		return name[:i]
	}
	return name
}
