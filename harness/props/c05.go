package props

import (
	"fmt"
	"math"
	"strings"

	"github.com/RoaringBitmap/roaring"
	segment "github.com/blugelabs/bluge_segment_api"
	ice "github.com/blugelabs/ice/v2"

	"verifharness/explore"
	"verifharness/gen"
	"verifharness/model"
)

func init() {
	register(&explore.Prop{
		ID: "C05", Level: levelMC, Explorer: "E2 sequence explorer, state mode (explicit-state BFS to a fixpoint over the real iterator's private state)",
		Rule: "configurations = POST(N) postings lists (4 payload kinds per doc) x chunk modes {1,2,3,4,1024,1025} (+ the 1-hit form via a one-segment merge; + under modes 2 and 1025 the same list as re-written by the merger) x exclusion (every subset of the list, with and without one foreign doc; in the quick tier the foreign-doc variant runs under flags 000 and 111 only) or ReplaceActual bitmap (every subset) x all 8 flag combinations; per configuration BFS over states = (VerifStateIter dump of the real PostingsIterator, model position, last Advance target, calls after end) with operations Next and Advance(d) for every d in [last target, numDocs+2]; search runs to a fixpoint (all call sequences of any length), two extra calls after the end check 'nil stays nil'; every transition is compared with the model (doc number, and freq/norm/locations when requested; zero-or-correct when not); Count() checked per configuration; LARGE lists (adaptive multi-chunk, 1024..3073 documents, and 66 000 documents crossing document number 65 536) are walked with Next and with Advance strides; " +
			"further families: LARGE-ITER (incl. 66 000 documents), SPARSE-LARGE (six postings in 3000 / 5000 documents, every subset excluded, Next and Advance strides, four flag sets, two modes), the ZOO; distinct = configurations; non-trivial = configuration in which some Advance skips >=1 posting or an exclusion removes >=1 posting; counters.cross_chunk_skips = transitions whose Advance skipped across a chunk boundary",
		Assumptions: append(append([]string{}, commonAssumptions...), "state abstraction = Appendix B of DESIGN.md; cross-validated against path mode (no merging) on every configuration with <=3 documents: every path-mode state must be a BFS state and verdicts must agree"),
		Budget:      qBudget, Run: runC05,
	})
}

type postExp struct {
	doc  uint64
	freq int
	norm float32
	locs []model.LLoc
}

type iterCfg struct {
	seg     segment.Segment
	numDocs uint64
	chunk   uint64 // chunk size used by the list (0 = single chunk)
	except  *roaring.Bitmap
	replace *roaring.Bitmap
	flags   int       // bit0 freq, bit1 norm, bit2 locs
	exp     []postExp // non-excluded postings in order
	all     []uint64  // all postings of the list
	desc    string
	pl      segment.PostingsList
}

type iterMachine struct {
	c          *iterCfg
	it         segment.PostingsIterator
	pos        int // index in exp of the last returned posting; -1 none
	lastTarget uint64
	ended      int // calls made after the iterator first returned nil
	isEnd      bool
	crossChunk *int64
}

func newIterMachine(c *iterCfg, cross *int64) (*iterMachine, error) {
	// the postings list is immutable under iteration: one per configuration
	if c.pl == nil {
		dict, err := c.seg.Dictionary("a")
		if err != nil {
			return nil, err
		}
		c.pl, err = dict.PostingsList([]byte("x"), c.except, nil)
		if err != nil {
			return nil, err
		}
	}
	pl := c.pl
	it, err := pl.Iterator(c.flags&1 != 0, c.flags&2 != 0, c.flags&4 != 0, nil)
	if err != nil {
		return nil, err
	}
	if c.replace != nil {
		o, ok := it.(segment.OptimizablePostingsIterator)
		if !ok {
			return nil, fmt.Errorf("iterator is not optimizable")
		}
		o.ReplaceActual(c.replace)
	}
	return &iterMachine{c: c, it: it, pos: -1, crossChunk: cross}, nil
}

func (m *iterMachine) Ops() []int {
	if m.ended >= 2 {
		return nil
	}
	ops := []int{0}
	for d := m.lastTarget; d <= m.c.numDocs+2; d++ {
		ops = append(ops, int(d)+1)
	}
	return ops
}

func (m *iterMachine) Key() string {
	return fmt.Sprintf("%s|pos=%d lt=%d end=%d", ice.VerifStateIter(m.it), m.pos, m.lastTarget, m.ended)
}

func (m *iterMachine) Step(op int) (viol string) {
	var p segment.Posting
	var err error
	var d uint64
	name := "Next()"
	msg := explore.Guard(func() {
		if op == 0 {
			p, err = m.it.Next()
		} else {
			d = uint64(op - 1)
			name = fmt.Sprintf("Advance(%d)", d)
			p, err = m.it.Advance(d)
		}
	})
	if op != 0 {
		m.lastTarget = d
	}
	if msg != "" || err != nil {
		return fmt.Sprintf("error: %s: %s", name, errText(msg, err))
	}
	// model
	want := -1
	for j := m.pos + 1; j < len(m.c.exp); j++ {
		if m.c.exp[j].doc >= d {
			want = j
			break
		}
	}
	if m.isEnd {
		m.ended++
	}
	if want < 0 {
		if p != nil {
			if m.isEnd {
				return fmt.Sprintf("end: %s after the end returned doc %d (nil must stay nil)", name, p.Number())
			}
			return fmt.Sprintf("doc: %s returned doc %d, want nil", name, p.Number())
		}
		m.isEnd = true
		m.pos = len(m.c.exp)
		return ""
	}
	if m.isEnd {
		return fmt.Sprintf("harness: model has a posting after the end")
	}
	e := m.c.exp[want]
	if p == nil {
		return fmt.Sprintf("doc: %s returned nil, want doc %d", name, e.doc)
	}
	if p.Number() != e.doc {
		return fmt.Sprintf("doc: %s returned doc %d, want %d", name, p.Number(), e.doc)
	}
	if want > m.pos+1 && m.c.chunk > 0 && m.crossChunk != nil {
		from := uint64(0)
		if m.pos >= 0 {
			from = m.c.exp[m.pos].doc / m.c.chunk
		}
		if e.doc/m.c.chunk != from {
			*m.crossChunk++
		}
	}
	m.pos = want
	// components
	fq, nm := p.Frequency(), float32(p.Norm())
	anyFlag := m.c.flags != 0
	_ = anyFlag
	if m.c.flags&1 != 0 {
		if fq != e.freq {
			return fmt.Sprintf("freq: %s doc %d frequency %d, want %d", name, e.doc, fq, e.freq)
		}
	} else if fq != 0 && fq != e.freq {
		return fmt.Sprintf("freq: %s doc %d unrequested frequency %d is neither 0 nor %d", name, e.doc, fq, e.freq)
	}
	if m.c.flags&2 != 0 {
		if math.Float32bits(nm) != math.Float32bits(e.norm) {
			return fmt.Sprintf("norm: %s doc %d norm %v, want %v", name, e.doc, nm, e.norm)
		}
	} else if nm != 0 && math.Float32bits(nm) != math.Float32bits(e.norm) {
		return fmt.Sprintf("norm: %s doc %d unrequested norm %v is neither 0 nor %v", name, e.doc, nm, e.norm)
	}
	locs := p.Locations()
	if m.c.flags&4 != 0 || len(locs) != 0 {
		if len(locs) != len(e.locs) {
			return fmt.Sprintf("locs: %s doc %d has %d locations, want %d", name, e.doc, len(locs), len(e.locs))
		}
		for i, l := range locs {
			w := e.locs[i]
			if l.Field() != w.Field || l.Pos() != w.P || l.Start() != w.S || l.End() != w.E {
				return fmt.Sprintf("locs: %s doc %d location %d = %s:%d:%d:%d, want %+v", name, e.doc, i, l.Field(), l.Pos(), l.Start(), l.End(), w)
			}
		}
	}
	return ""
}

func pathString(path []int) string {
	var parts []string
	for _, op := range path {
		if op == 0 {
			parts = append(parts, "Next")
		} else {
			parts = append(parts, fmt.Sprintf("Adv(%d)", op-1))
		}
	}
	return strings.Join(parts, " ")
}

// expFor derives the expected non-excluded postings of term x in field a.
func expFor(ls *model.LSeg, keep func(doc uint64) bool) (exp []postExp, all []uint64) {
	for i, d := range ls.Docs {
		if lf := d.Fields["a"]; lf != nil {
			if p, ok := lf.Terms["x"]; ok {
				all = append(all, uint64(i))
				if keep(uint64(i)) {
					exp = append(exp, postExp{uint64(i), p.Freq, p.Norm, p.Locs})
				}
			}
		}
	}
	return
}

func runIterConfig(c *explore.Ctx, scope string, idx int64, cfg *iterCfg, crossValidate bool) {
	c.Eval()
	c.R.Distinct++
	if len(cfg.exp) < len(cfg.all) || len(cfg.exp) >= 2 {
		c.Nontrivial()
	}
	var cross int64
	var firstErr error
	newM := func() explore.Machine {
		m, err := newIterMachine(cfg, &cross)
		if err != nil {
			firstErr = err
			return &deadMachine{}
		}
		return m
	}
	// Count()
	msg := explore.Guard(func() {
		dict, err := cfg.seg.Dictionary("a")
		if err != nil {
			firstErr = err
			return
		}
		pl, err := dict.PostingsList([]byte("x"), cfg.except, nil)
		if err != nil {
			firstErr = err
			return
		}
		// the optimiser's view of a fresh iterator: ActualBitmap() holds exactly the non-excluded
		// postings of a general list; DocNum1Hit() names the document of an unconsumed 1-hit list
		if cfg.replace == nil && len(cfg.all) > 0 {
			if it, err := pl.Iterator(cfg.flags&1 != 0, cfg.flags&2 != 0, cfg.flags&4 != 0, nil); err == nil {
				if o, ok := it.(segment.OptimizablePostingsIterator); ok {
					d1, is1 := o.DocNum1Hit()
					abm := o.ActualBitmap()
					switch {
					case abm != nil:
						var got []uint64
						for _, x := range abm.ToArray() {
							got = append(got, uint64(x))
						}
						var want []uint64
						for _, e := range cfg.exp {
							want = append(want, e.doc)
						}
						if fmt.Sprint(got) != fmt.Sprint(want) || is1 {
							c.Violate(scope, idx, "C05/optimizable/actual-bitmap", fmt.Sprintf("ActualBitmap()=%v DocNum1Hit=(%d,%v), non-excluded postings %v", got, d1, is1, want), cfg.desc)
						}
					default:
						// 1-hit encoded list
						if len(cfg.exp) == 1 && (!is1 || d1 != cfg.exp[0].doc) || len(cfg.exp) == 0 && is1 {
							c.Violate(scope, idx, "C05/optimizable/docnum1hit", fmt.Sprintf("DocNum1Hit()=(%d,%v), non-excluded postings %v", d1, is1, cfg.exp), cfg.desc)
						}
					}
				}
			}
		}
		if cfg.replace == nil {
			if got := pl.Count(); got != uint64(len(cfg.exp)) {
				c.Violate(scope, idx, "C05/count/postingslist", fmt.Sprintf("PostingsList.Count()=%d, non-excluded postings=%d", got, len(cfg.exp)), cfg.desc)
			}
			if len(cfg.all) > 0 {
				it, err := pl.Iterator(true, true, true, nil)
				if err != nil {
					firstErr = err
					return
				}
				if got := it.Count(); got != uint64(len(cfg.exp)) {
					c.Violate(scope, idx, "C05/count/iterator", fmt.Sprintf("PostingsIterator.Count()=%d, non-excluded postings=%d", got, len(cfg.exp)), cfg.desc)
				}
			}
		}
	})
	if msg != "" || firstErr != nil {
		c.Violate(scope, idx, sigOf("C05", "setup", "error: "+errText(msg, firstErr)), errText(msg, firstErr), cfg.desc)
		return
	}
	nviol := 0
	res := explore.BFS(newM, 200000, func(path []int, detail string) {
		nviol++
		if nviol <= 1 {
			c.Violate(scope, idx, sigOf("C05", "step", detail), detail+" after path ["+pathString(path[:len(path)-1])+"]", cfg.desc+" path="+pathString(path))
		}
	})
	if firstErr != nil {
		c.Violate(scope, idx, sigOf("C05", "setup", "error: "+firstErr.Error()), firstErr.Error(), cfg.desc)
		return
	}
	c.R.States += res.States
	c.R.Transitions += res.Transitions
	c.Add("cross_chunk_skips", cross)
	if int64(res.MaxDepth) > c.R.Counters["max_depth"] {
		c.R.Counters["max_depth"] = int64(res.MaxDepth)
	}
	if res.Capped {
		c.R.Capped = "state cap hit in a BFS"
	}
	c.Outcome(explore.Hash(fmt.Sprint(res.States, res.Transitions, cfg.exp)))
	if crossValidate {
		pv := 0
		_, states := explore.Paths(newM, 4, func(path []int, detail string) { pv++ })
		c.Count("path_mode_cross_validations")
		if (pv > 0) != (nviol > 0) {
			c.R.Error = fmt.Sprintf("state abstraction unsound: path mode verdict %d violations, state mode %d (%s)", pv, nviol, cfg.desc)
		}
		if nviol == 0 {
			// every state reachable in path mode must have been reached by the BFS: re-run BFS collecting keys
			seen := map[string]bool{}
			explore.BFS(func() explore.Machine { return &recordingMachine{newM().(*iterMachine), seen} }, 200000, func([]int, string) {})
			for k := range states {
				if !seen[k] {
					c.R.Error = "state abstraction unsound: path-mode state missing from BFS: " + k
				}
			}
		}
	}
}

type deadMachine struct{}

func (*deadMachine) Ops() []int      { return nil }
func (*deadMachine) Step(int) string { return "" }
func (*deadMachine) Key() string     { return "dead" }

type recordingMachine struct {
	*iterMachine
	seen map[string]bool
}

func (r *recordingMachine) Key() string {
	k := r.iterMachine.Key()
	r.seen[k] = true
	return k
}

func runC05(c *explore.Ctx) {
	N := 4
	modes := []uint32{1, 2, 3, 1025} // for <=4 docs the modes 4, 1024 and 1025 are all single-chunk
	if c.Thorough() {
		N = 6
		modes = []uint32{1, 2, 3, 4, 1024, 1025}
	}
	// sizes outermost: if the internal deadline ends the run, every size below the one in progress
	// has been explored completely under every mode (reported in coverage.notes)
	sparseInLarge(c)
	largeIterWalks(c)
	zooEach(c, false, func(idx int64, z *zooSeg) { zooPostings(c, idx, z, 12) })
	for n := 0; n <= N; n++ {
		for _, mode := range modes {
			mode := mode
			scope := fmt.Sprintf("POST(n=%d)/%d", n, mode)
			gen.PostExact(n, func(idx int64, batch []gen.Doc, kinds []int) bool {
				if !c.Replay && int((idx+int64(mode)*7)%int64(c.NShards)) != c.Shard {
					return true
				}
				if c.Replay && !(c.ReplayScope == scope && c.ReplayIndex == idx) {
					return true
				}
				c.Begin(scope, idx)
				iterConfigsForBatch(c, scope, idx, batch, kinds, mode)
				return !c.Expired()
			})
			if c.Expired() {
				c.R.Notes = append(c.R.Notes, fmt.Sprintf("deadline reached while exploring lists over %d documents; all sizes < %d were completed under every mode by this worker", n, n))
				return
			}
		}
	}
	c.R.Notes = append(c.R.Notes, fmt.Sprintf("all sizes <= %d completed under every mode", N))
}

func iterConfigsForBatch(c *explore.Ctx, scope string, idx int64, batch []model.Doc, kinds []int, mode uint32) {
	ls := model.Build(batch)
	seg, err := build(batch, mode)
	if err != nil {
		c.Eval()
		c.Violate(scope, idx, sigOf("C05", "build", "error: "+err.Error()), err.Error(), model.BatchString(batch))
		return
	}
	type form struct {
		name string
		seg  segment.Segment
	}
	forms := []form{{"general", seg}}
	_, all := expFor(ls, func(uint64) bool { return true })
	if len(all) == 1 && kinds[all[0]] == gen.KF1 {
		if s2, _, err := inputForm(seg, ls, 2, mode); err == nil {
			forms = append(forms, form{"1-hit", s2})
		} else {
			c.Violate(scope, idx, sigOf("C05", "form", "error: "+err.Error()), err.Error(), model.BatchString(batch))
		}
	}
	if len(all) >= 2 && (mode == 2 || mode == 1025) {
		// the same list as written by the MERGER (one-segment merge): its freq/norm and location
		// streams come from another writer than the builder's
		if s2, _, err := inputForm(seg, ls, 2, mode); err == nil {
			forms = append(forms, form{"merged", s2})
		} else {
			c.Violate(scope, idx, sigOf("C05", "form", "error: "+err.Error()), err.Error(), model.BatchString(batch))
		}
	}
	n := uint64(len(batch))
	chunk := uint64(0)
	if mode <= 4 {
		chunk = uint64(mode)
	}
	c.Sample(idx, func() string { return fmt.Sprintf("%s #%d kinds=%v", scope, idx, kinds) })
	small := len(batch) <= 3
	for _, f := range forms {
		// exclusions: every subset of the list, with and without one foreign document
		foreignDoc := -1
		for d := 0; d < len(batch); d++ {
			isIn := false
			for _, a := range all {
				if a == uint64(d) {
					isIn = true
				}
			}
			if !isIn {
				foreignDoc = d
				break
			}
		}
		for mask := 0; mask < 1<<uint(len(all)); mask++ {
			for foreign := 0; foreign < 2; foreign++ {
				if foreign == 1 && foreignDoc < 0 {
					continue
				}
				var ex *roaring.Bitmap
				exSet := map[uint64]bool{}
				if mask != 0 || foreign == 1 {
					ex = roaring.New()
					for i, a := range all {
						if mask&(1<<uint(i)) != 0 {
							ex.Add(uint32(a))
							exSet[a] = true
						}
					}
					if foreign == 1 {
						ex.Add(uint32(foreignDoc))
					}
				}
				exp, _ := expFor(ls, func(d uint64) bool { return !exSet[d] })
				for flags := 0; flags < 8; flags++ {
					if foreign == 1 && !c.Thorough() && flags != 0 && flags != 7 {
						continue // quick tier: the foreign-document variant only with no flag and with all flags
					}
					cfg := &iterCfg{seg: f.seg, numDocs: n, chunk: chunk, except: ex, flags: flags, exp: exp, all: all,
						desc: fmt.Sprintf("%s #%d kinds=%v form=%s except=%v flags=%03b", scope, idx, kinds, f.name, ex, flags)}
					runIterConfig(c, scope, idx, cfg, small && !c.Thorough())
					if c.Expired() {
						return
					}
				}
			}
		}
		// ReplaceActual on a fresh general iterator: every subset of the list
		if f.name == "general" && len(all) > 0 {
			for mask := 0; mask < 1<<uint(len(all)); mask++ {
				rb := roaring.New()
				keep := map[uint64]bool{}
				for i, a := range all {
					if mask&(1<<uint(i)) != 0 {
						rb.Add(uint32(a))
						keep[a] = true
					}
				}
				exp, _ := expFor(ls, func(d uint64) bool { return keep[d] })
				for flags := 0; flags < 8; flags++ {
					cfg := &iterCfg{seg: f.seg, numDocs: n, chunk: chunk, replace: rb, flags: flags, exp: exp, all: all,
						desc: fmt.Sprintf("%s #%d kinds=%v form=%s replaceActual=%v flags=%03b", scope, idx, kinds, f.name, rb, flags)}
					runIterConfig(c, scope, idx, cfg, false)
					if c.Expired() {
						return
					}
				}
			}
		}
	}
}

// sparseInLarge: SPARSE-LARGE - a list of six postings in a segment of 3000 / 5000 documents (adaptive
// mode: ONE chunk as long as the segment, gaps of thousands of documents between postings, two
// adjacent ones): every subset of the six as exclusion set, also with excluded documents that carry
// no posting, Next walks and Advance strides, all flag sets.
func sparseInLarge(c *explore.Ctx) {
	scope := "SPARSE-LARGE"
	var idx int64
	for _, n := range []int{3000, 5000} {
		hits := []int{10, 100, 2000, 2001, n - 400, n - 1}
		batch := make([]model.Doc, n)
		for i := range batch {
			batch[i] = model.Doc{{N: "a", Len: 1, Terms: []model.Term{{T: "z", Freq: 1}}}}
		}
		for k, d := range hits {
			locs := make([]model.Loc, k+1)
			for j := range locs {
				locs[j] = model.Loc{P: j + 1, S: 100*k + j, E: 100*k + j + 2}
			}
			batch[d] = model.Doc{gen.IDField("s", d), {N: "a", Len: k + 2, Terms: []model.Term{{T: "x", Freq: k + 1, Locs: locs}, {T: "z", Freq: 1}}}}
		}
		ls := model.Build(batch)
		for _, mode := range []uint32{1025, 1024} {
			seg, err := build(batch, mode)
			if err != nil {
				c.Violate(scope, idx, sigOf("C05", "build", "error: "+err.Error()), err.Error(), fmt.Sprint(n))
				return
			}
			for sub := 0; sub < 1<<len(hits); sub++ {
				for extra := 0; extra < 2; extra++ {
					my := idx
					idx++
					if !c.MineIdx(scope, my) || c.Expired() {
						continue
					}
					ex := roaring.New()
					exSet := map[uint64]bool{}
					for k, d := range hits {
						if sub&(1<<k) != 0 {
							ex.Add(uint32(d))
							exSet[uint64(d)] = true
						}
					}
					if extra == 1 {
						for _, d := range []int{0, 11, 1999, 2002, n - 2} {
							ex.Add(uint32(d))
							exSet[uint64(d)] = true
						}
					}
					exp, all := expFor(ls, func(d uint64) bool { return !exSet[d] })
					for _, stride := range []uint64{0, 1, 90, 1025, 1900} {
						for _, flags := range []int{7, 1, 2, 0} {
							c.Eval()
							c.R.Distinct++
							c.Nontrivial()
							cfg := &iterCfg{seg: seg, numDocs: uint64(n), except: ex, flags: flags, exp: exp, all: all,
								desc: fmt.Sprintf("SPARSE-LARGE #%d n=%d mode=%d postings at %v, excluded subset %06b (+5 other documents: %v) stride=%d flags=%03b", my, n, mode, hits, sub, extra == 1, stride, flags)}
							m, err := newIterMachine(cfg, nil)
							if err != nil {
								c.Violate(scope, my, sigOf("C05", "setup", "error: "+err.Error()), err.Error(), cfg.desc)
								continue
							}
							target := uint64(0)
							for steps := 0; steps < 12 && m.ended < 2; steps++ {
								op := 0
								if stride > 0 {
									op = int(target) + 1
									target += stride
									if stride > 1 && steps > 0 && steps%2 == 0 {
										op = 0 // mix Next into the strides
									}
								}
								c.R.Transitions++
								if v := m.Step(op); v != "" {
									c.Violate(scope, my, sigOf("C05", "sparse-large", v), v, cfg.desc)
									break
								}
							}
						}
					}
				}
			}
		}
	}
}

// largeIterWalks: adaptive-mode multi-chunk lists of real size: full Next walk and Advance strides.
func largeIterWalks(c *explore.Ctx) {
	sizes := []int{1024, 1025, 2048, 2049}
	if c.Thorough() {
		sizes = append([]int{}, gen.LargeSizes...)
	}
	// 66 000 documents: document numbers cross 65 536 (roaring container boundary, 16-bit limits)
	sizes = append(sizes, 66000)
	var idx int64
	for _, n := range sizes {
		for p := 0; p < gen.NLargePatterns; p++ {
			for _, mode := range []uint32{1025, 100} {
				scope := "LARGE-ITER"
				my := idx
				idx++
				if n > 60000 && !c.Thorough() && (p > 1 || mode != 1025) {
					continue
				}
				if !c.MineIdx(scope, my) || c.Expired() {
					continue
				}
				batch := gen.Large(n, p, 1)
				ls := model.Build(batch)
				seg, err := build(batch, mode)
				if err != nil {
					c.Violate(scope, my, sigOf("C05", "build", "error: "+err.Error()), err.Error(), fmt.Sprint(n, p))
					continue
				}
				for exKind := 0; exKind < 3; exKind++ {
					var ex *roaring.Bitmap
					exSet := map[uint64]bool{}
					if exKind > 0 {
						ex = roaring.New()
						for d := 0; d < n; d++ {
							if (exKind == 1 && d%3 == 0) || (exKind == 2 && d%1024 >= 2 && d%1024 < 1020) {
								ex.Add(uint32(d))
								exSet[uint64(d)] = true
							}
						}
					}
					exp, all := expFor(ls, func(d uint64) bool { return !exSet[d] })
					for _, stride := range []uint64{0, 1, 7, 500, 1023, 1024, 1025} {
						for _, flags := range []int{7, 1, 0} {
							c.Eval()
							c.R.Distinct++
							c.Nontrivial()
							cfg := &iterCfg{seg: seg, numDocs: uint64(n), except: ex, flags: flags, exp: exp, all: all,
								desc: fmt.Sprintf("LARGE-ITER #%d n=%d pattern=%d mode=%d exclusion=%d stride=%d flags=%03b", my, n, p, mode, exKind, stride, flags)}
							m, err := newIterMachine(cfg, nil)
							if err != nil {
								c.Violate(scope, my, sigOf("C05", "setup", "error: "+err.Error()), err.Error(), cfg.desc)
								continue
							}
							target := uint64(0)
							for steps := 0; steps < n+5 && m.ended < 2; steps++ {
								op := 0
								if stride > 0 {
									op = int(target) + 1
									target += stride
								}
								c.R.Transitions++
								if v := m.Step(op); v != "" {
									c.Violate(scope, my, sigOf("C05", "large", v), v, cfg.desc)
									break
								}
							}
						}
					}
				}
			}
		}
	}
}
