package props

import (
	"fmt"
	"strings"

	"github.com/RoaringBitmap/roaring"
	segment "github.com/blugelabs/bluge_segment_api"
	ice "github.com/blugelabs/ice/v2"

	"verifharness/explore"
	"verifharness/gen"
	"verifharness/model"
	"verifharness/obs"
)

// The C09 operation menu (shared by the schedule explorer and the free-running -race pass).

type c09Op struct {
	name string
	run  func(seg segment.Segment) string
}

func c09Batch() []model.Doc {
	batch := make([]model.Doc, 130)
	for i := range batch {
		d := model.Doc{gen.IDField("r", i), {N: "a", Len: 2, St: true, Val: []byte(fmt.Sprintf("stored-%03d", i)),
			Terms: []model.Term{{T: "x", Freq: 1 + i%3, Locs: []model.Loc{{P: i, S: 1, E: 2}}}, {T: fmt.Sprintf("u%d", i%40), Freq: 1}}}}
		if i%2 == 0 {
			d = append(d, model.Field{N: "b", Len: 1, DV: true, Terms: []model.Term{{T: fmt.Sprintf("t%d", i%7), Freq: 1}}})
		}
		batch[i] = d
	}
	return batch
}

func guardStr(f func() string) (s string) {
	if msg := explore.Guard(func() { s = f() }); msg != "" {
		return msg
	}
	return s
}

// c09Partners: the other inputs of the menu's merges. They are reloaded for every execution (with
// the shared segment), so that nothing an execution leaves in them - lazily filled caches, reader
// state - can leak into the next one.
type c09Partners struct {
	other, sameSchema segment.Segment
}

func c09Menu(pt *c09Partners) []c09Op {
	stored := func(n uint64) c09Op {
		return c09Op{fmt.Sprintf("stored(%d)", n), func(seg segment.Segment) string {
			var b strings.Builder
			err := seg.VisitStoredFields(n, func(f string, v []byte) bool {
				fmt.Fprintf(&b, "%s=%s;", f, v)
				return true
			})
			if err != nil {
				b.WriteString("ERR " + err.Error())
			}
			return b.String()
		}}
	}
	dict := func(field string) c09Op {
		return c09Op{"dict(" + field + ")", func(seg segment.Segment) string {
			d, err := seg.Dictionary(field)
			if err != nil {
				return "ERR " + err.Error()
			}
			var b strings.Builder
			it := d.Iterator(nil, nil, nil)
			for {
				e, err := it.Next()
				if err != nil {
					return "ERR " + err.Error()
				}
				if e == nil {
					break
				}
				fmt.Fprintf(&b, "%q:%d;", e.Term(), e.Count())
			}
			return b.String()
		}}
	}
	dv := func(n uint64) c09Op {
		return c09Op{fmt.Sprintf("docvalues(%d)", n), func(seg segment.Segment) string {
			r, err := seg.DocumentValueReader([]string{"b"})
			if err != nil {
				return "ERR " + err.Error()
			}
			var b strings.Builder
			for _, d := range []uint64{n, n + 2, n} {
				err = r.VisitDocumentValues(d, func(f string, t []byte) { fmt.Fprintf(&b, "%d:%s=%s;", d, f, t) })
				if err != nil {
					return "ERR " + err.Error()
				}
			}
			return b.String()
		}}
	}
	return []c09Op{
		stored(0), stored(129), stored(1), dict("a"), dict("b"),
		{"postings(a,x)", func(seg segment.Segment) string {
			d, err := seg.Dictionary("a")
			if err != nil {
				return "ERR " + err.Error()
			}
			pl, err := d.PostingsList([]byte("x"), nil, nil)
			if err != nil {
				return "ERR " + err.Error()
			}
			ps, err := obs.WalkAll(pl)
			if err != nil {
				return "ERR " + err.Error()
			}
			return fmt.Sprint(len(ps), ps[0], ps[len(ps)-1])
		}},
		dv(0), dv(126),
		{"docsMatching", func(seg segment.Segment) string {
			bm, err := seg.DocsMatchingTerms([]segment.Term{pairT{"a", "u3"}, pairT{"_id", "r7"}, pairT{"b", "t1"}})
			if err != nil {
				return "ERR " + err.Error()
			}
			return bm.String()
		}},
		stored(135), // out of range: a legal no-op read that still takes a per-call context from the pool
		{"writeTo", func(seg segment.Segment) string {
			var w sliceWriter
			n, err := seg.WriteTo(&w, nil)
			if err != nil {
				return "ERR " + err.Error()
			}
			return fmt.Sprintf("%d:%016x", n, explore.Hash(string(w.b)))
		}},
		{"merge([S,S'])", func(seg segment.Segment) string {
			var w sliceWriter
			m := ice.Merge([]segment.Segment{seg, pt.other}, []*roaring.Bitmap{bitmapOf(3, 128), nil}, 1<<16)
			n, err := m.WriteTo(&w, nil)
			if err != nil {
				return "ERR " + err.Error()
			}
			return fmt.Sprintf("%d:%016x:%v", n, explore.Hash(string(w.b)), m.DocumentNumbers()[1])
		}},
		// the shared segment as the LAST input of a merge whose inputs all have the same field list
		// (the merge takes its "fields are the same" paths and works from the last input's tables)
		{"merge([T,S])", func(seg segment.Segment) string {
			var w sliceWriter
			m := ice.Merge([]segment.Segment{pt.sameSchema, seg}, []*roaring.Bitmap{nil, bitmapOf(3, 128)}, 1<<16)
			n, err := m.WriteTo(&w, nil)
			if err != nil {
				return "ERR " + err.Error()
			}
			return fmt.Sprintf("%d:%016x:%v", n, explore.Hash(string(w.b)), m.DocumentNumbers()[0])
		}},
	}
}
