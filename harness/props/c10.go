package props

import (
	"bytes"
	"crypto/sha256"
	"encoding/hex"
	"encoding/json"
	"fmt"
	"os"
	"path/filepath"

	"github.com/RoaringBitmap/roaring"
	segment "github.com/blugelabs/bluge_segment_api"
	ice "github.com/blugelabs/ice/v2"

	"verifharness/explore"
	"verifharness/gen"
	"verifharness/model"
	"verifharness/obs"
	"verifharness/refice"
)

func init() {
	register(&explore.Prop{
		ID: "C10", Level: levelMC, Explorer: "E1 input-space enumerator, differential against a frozen reference implementation",
		Rule: "reference = harness/refice, a frozen byte-for-byte copy of the pinned ice sources (never rebuilt from /repo). Scopes (builder files in both directions; merger files in both directions AND mixed: current merger over reference-written inputs, reference merger over current-written inputs): MIX x modes, EMPTY-RECORD (documents without any stored field on the block-copy path), MERGE(k=2), STORED-B subset (two 128-document blocks), DV-C subset (1024-document doc-value chunks), LARGE subset (adaptive chunking across cardinality 1024); both writers (builder, merger) and both directions: bytes written by the CURRENT code are read by the REFERENCE reader, bytes written by the REFERENCE code are read by the CURRENT reader, each observation must equal the reference model; plus the golden corpus of reference-written files under golden/ (SHA-256 pinned). Observations are compared, not bytes (a change that keeps the format readable must not alarm); byte identity is reported as a statistic. " +
			"further cases: EXTREME (incl. stored values of 5 and 9 MiB), HUGE (70 000 documents; sparse, dense and every-document terms; adaptive and legacy mode), golden norm files; " +
			"Components where the pinned reference itself is wrong are excluded by name (see coverage.notes); distinct = (case, direction); non-trivial = file crosses a format constant (>=129 docs, >=1025 docs, cardinality >=1024, >=2 doc-value terms) or is a merge output",
		Assumptions: append(append([]string{}, commonAssumptions...), "C10 is relative to the single pinned reference (commit 76983be); the reference's own known defects (fixed in /repo by fix: commits) are excluded by name"),
		Budget:      qBudget, Run: runC10,
	})
}

func refBuild(batch []model.Doc, mode uint32) (b []byte, err error) {
	var seg segment.Segment
	if msg := explore.Guard(func() { seg, _, err = refice.RefNew(model.SegDocs(batch), model.NormCalc, mode) }); msg != "" {
		return nil, fmt.Errorf("reference builder: %s", msg)
	}
	if err != nil {
		return nil, err
	}
	var buf bytes.Buffer
	if msg := explore.Guard(func() { _, err = seg.WriteTo(&buf, nil) }); msg != "" {
		return nil, fmt.Errorf("reference WriteTo: %s", msg)
	}
	return buf.Bytes(), err
}

func refLoad(b []byte) (seg segment.Segment, err error) {
	if msg := explore.Guard(func() { seg, err = refice.Load(segment.NewDataBytes(exact(b))) }); msg != "" {
		return nil, fmt.Errorf("reference Load: %s", msg)
	}
	return seg, err
}

// refObserve reads bytes with the reference reader. Stored fields are visited on a fresh copy per
// 128-document block (the pinned reader's look-ahead defect F3 is history dependent).
func refObserve(b []byte) (o *obs.Obs, err error) {
	seg, err := refLoad(b)
	if err != nil {
		return nil, err
	}
	var cur segment.Segment
	curBlock := uint64(1 << 62)
	msg := explore.Guard(func() {
		o, err = obs.ObserveWith(seg, func(d uint64) segment.Segment {
			if d/128 != curBlock {
				cur, _ = refLoad(b)
				curBlock = d / 128
			}
			return cur
		})
	})
	if msg != "" {
		return nil, fmt.Errorf("reference reader: %s", msg)
	}
	return o, err
}

func refMerge(inputs [][]byte, drops []*roaring.Bitmap, mode uint32) ([]byte, error) {
	var segs []segment.Segment
	for _, in := range inputs {
		s, err := refLoad(in)
		if err != nil {
			return nil, err
		}
		segs = append(segs, s)
	}
	var buf bytes.Buffer
	var err error
	if msg := explore.Guard(func() { _, _, err = refice.RefMerge(segs, drops, &buf, mode, nil) }); msg != "" {
		return nil, fmt.Errorf("reference merger: %s", msg)
	}
	return buf.Bytes(), err
}

var c10Notes = []string{
	"excluded (reference reader, merged files): dictionary-iterator entry counts - the pinned reader reports 1 for every general term after a 1-hit term (finding F4)",
	"excluded (reference writer, merged files): CollectionStats SumTotalTermFrequency/DocumentCount as written by the pinned merger (finding F9)",
	"excluded (reference reader): merges with zero survivors - the pinned reader cannot load them (finding F7); the current reader loads the reference-written ones",
	"excluded (reference writer): batches in which a term repeats inside a field with a location naming another field (finding F11)",
	"reference stored-field visits use a fresh copy per block (finding F3, history dependent panic in the pinned reader)",
}

// c10Built checks one batch in both directions.
func c10Built(c *explore.Ctx, scope string, idx int64, batch []model.Doc, mode uint32, cas string, crosses bool) {
	c.Eval()
	if crosses {
		c.Nontrivial()
	}
	want := obs.Expected(model.Build(batch))
	// current writer -> reference reader
	cur, err := build(batch, mode)
	if err != nil {
		c.Violate(scope, idx, sigOf("C10", "current-build", "error: "+err.Error()), err.Error(), cas)
		return
	}
	cb, _, err := persist(cur)
	if err != nil {
		c.Violate(scope, idx, sigOf("C10", "current-persist", "error: "+err.Error()), err.Error(), cas)
		return
	}
	ro, err := refObserve(cb)
	if err != nil {
		c.Violate(scope, idx, sigOf("C10", "cur-to-ref", "error: "+err.Error()), "reference reader cannot read a file written by the current builder: "+err.Error(), cas)
		return
	}
	if d := obs.Diff(ro, want, obs.CAll); d != "" {
		c.Violate(scope, idx, sigOf("C10", "cur-to-ref", d), "reference reader reads a file written by the current builder differently: "+d, cas)
		return
	}
	// reference writer -> current reader
	if c01Predicate(batch, "") == "" {
		rb, err := refBuild(batch, mode)
		if err != nil {
			c.R.Error = "reference builder failed: " + err.Error() + " " + cas
			return
		}
		l, err := loadMem(rb)
		if err != nil {
			c.Violate(scope, idx, sigOf("C10", "ref-to-cur", "error: "+err.Error()), "current reader cannot load a file written by the reference builder: "+err.Error(), cas)
			return
		}
		co, err := observe(l)
		if err != nil {
			c.Violate(scope, idx, sigOf("C10", "ref-to-cur", "error: "+err.Error()), "current reader fails on a file written by the reference builder: "+err.Error(), cas)
			return
		}
		if d := obs.Diff(co, want, obs.CAll); d != "" {
			c.Violate(scope, idx, sigOf("C10", "ref-to-cur", d), "current reader reads a file written by the reference builder differently: "+d, cas)
			return
		}
		if bytes.Equal(rb, cb) {
			c.Count("byte_identical_builder_files")
		} else {
			c.Count("byte_different_builder_files")
		}
	}
}

func runC10(c *explore.Ctx) {
	c.R.Notes = append(c.R.Notes, c10Notes...)
	K := 8
	modes := []uint32{1025, 1, 3}
	if c.Thorough() {
		K = gen.NMix
		modes = gen.ModesAll
	}
	for _, m := range modes {
		m := m
		scope := fmt.Sprintf("MIX(%d,3)/%d", K, m)
		gen.Mix(K, 3, "m", func(idx int64, batch []gen.Doc, kinds []int) bool {
			if c.MineIdx(scope, idx) {
				cas := fmt.Sprintf("%s #%d %s", scope, idx, model.BatchString(batch))
				c.Sample(idx, func() string { return cas })
				dvTerms := 0
				for _, d := range batch {
					for _, f := range d {
						if f.DV {
							dvTerms += len(f.Terms)
						}
					}
				}
				c10Built(c, scope, idx, batch, m, cas, dvTerms >= 2)
			}
			return !c.Expired()
		})
	}
	// format constants: 128-document stored blocks, 1024-document doc-value chunks, cardinality 1024
	{
		scope := "CONSTANTS"
		var idx int64
		type cs struct {
			name  string
			batch func() []model.Doc
			mode  uint32
		}
		var cases []cs
		for _, p := range [][4]int{{0, 0, 0, 0}, {7, 3, 2, 5}, {24, 12, 0, 1}} {
			p := p
			cases = append(cases, cs{fmt.Sprintf("STORED-B%v", p), func() []model.Doc { return storedBBatch(p[0], p[1], p[2], p[3]) }, 1025})
		}
		sizes := []int{1025, 2049}
		if c.Thorough() {
			sizes = []int{1023, 1024, 1025, 1026, 2047, 2048, 2049}
		}
		for _, n := range sizes {
			for p := 0; p < NDVPatterns; p += 2 {
				n, p := n, p
				cases = append(cases, cs{fmt.Sprintf("DV-C n=%d p=%d", n, p), func() []model.Doc { return dvcBatch(n, p) }, 1025})
			}
			for p := 0; p < gen.NLargePatterns; p += 2 {
				for _, m := range []uint32{1025, 1024} {
					n, p, m := n, p, m
					cases = append(cases, cs{fmt.Sprintf("LARGE n=%d p=%d mode=%d", n, p, m), func() []model.Doc { return gen.Large(n, p, 1) }, m})
				}
			}
		}
		cases = append(cases, cs{"257 stored docs", func() []model.Doc {
			b := make([]model.Doc, 257)
			for i := range b {
				b[i] = model.Doc{gen.IDField("g", i), {N: "a", St: true, Val: []byte(fmt.Sprintf("value-%d", i)), Len: 1, Terms: []model.Term{{T: "x", Freq: 1}}}}
			}
			return b
		}, 1025})
		for _, e := range gen.Extremes() {
			e := e
			cases = append(cases, cs{"EXTREME " + e.Name, func() []model.Doc { return e.Batch }, 1025})
		}
		// more than 65 536 documents: a sparse term whose single chunk spans the whole segment
		// (chunk size above 2^16), a dense term, a term in every document; adaptive and legacy modes
		for _, p := range []int{1, 0} {
			for _, m := range []uint32{1025, 1024} {
				p, m := p, m
				cases = append(cases, cs{fmt.Sprintf("HUGE n=70000 p=%d mode=%d", p, m), func() []model.Doc {
					b := gen.Large(70000, p, 1)
					for _, j := range []int{0, 3, 1024, 65535, 65536, 65537, 69000, 69999} {
						b[j] = append(gen.Doc{gen.IDField("h", j)}, b[j]...)
						b[j] = append(b[j], model.Field{N: "b", Len: 1, DV: true, St: true, Val: []byte(fmt.Sprintf("stored-%d", j)), Terms: []model.Term{{T: fmt.Sprintf("t%d", j%3), Freq: 2, Locs: []model.Loc{{P: 1, S: j, E: j + 1}}}}})
					}
					return b
				}, m})
			}
		}
		for _, cse := range cases {
			my := idx
			idx++
			if c.MineIdx(scope, my) && !c.Expired() {
				c10Built(c, scope, my, cse.batch(), cse.mode, scope+" "+cse.name, true)
			}
		}
	}
	// merger output, both directions
	check := func(scope string, idx int64, r *mergeRun) {
		cas := r.String()
		c.Nontrivial()
		c.R.Nontrivial-- // counted by mergeSweep's own rule already when non-trivial; keep one count
		if r.err != nil || (r.lerr != nil) {
			c.Violate(scope, idx, sigOf("C10", "current-merge", "error: "+errText("", r.err)+errText("", r.lerr)), fmt.Sprint(r.err, r.lerr), cas)
			return
		}
		want := obs.Expected(r.want)
		if !r.zeroSurvivors() {
			ro, err := refObserve(r.bytes)
			if err != nil {
				c.Violate(scope, idx, sigOf("C10", "cur-to-ref-merged", "error: "+err.Error()), "reference reader cannot read a file written by the current merger: "+err.Error(), cas)
				return
			}
			if d := obs.Diff(ro, want, obs.CAll&^obs.CDictCount); d != "" {
				c.Violate(scope, idx, sigOf("C10", "cur-to-ref-merged", d), "reference reader reads a file written by the current merger differently: "+d, cas)
				return
			}
		}
		// reference merger over reference-written inputs
		var inputs [][]byte
		for _, b := range r.batches {
			if c01Predicate(b, "") != "" {
				return
			}
			rb, err := refBuild(b, 1025)
			if err != nil {
				c.R.Error = "reference builder failed: " + err.Error()
				return
			}
			inputs = append(inputs, rb)
		}
		mb, err := refMerge(inputs, r.drops, r.cfg.Out)
		if err != nil {
			c.R.Error = "reference merger failed: " + err.Error() + " " + cas
			return
		}
		l, err := loadMem(mb)
		if err != nil {
			c.Violate(scope, idx, sigOf("C10", "ref-to-cur-merged", "error: "+err.Error()), "current reader cannot load a file written by the reference merger: "+err.Error(), cas)
			return
		}
		co, err := observe(l)
		if err != nil {
			c.Violate(scope, idx, sigOf("C10", "ref-to-cur-merged", "error: "+err.Error()), "current reader fails on a file written by the reference merger: "+err.Error(), cas)
			return
		}
		if d := obs.Diff(co, want, obs.CAll&^obs.CStats); d != "" {
			c.Violate(scope, idx, sigOf("C10", "ref-to-cur-merged", d), "current reader reads a file written by the reference merger differently: "+d, cas)
			return
		}
		if bytes.Equal(mb, r.bytes) {
			c.Count("byte_identical_merger_files")
		} else {
			c.Count("byte_different_merger_files")
		}
		// mixed versions: the CURRENT merger over inputs WRITTEN BY THE REFERENCE (the merger's copy
		// paths walk the inputs' bytes without going through the ordinary readers) ...
		var refIn []segment.Segment
		for _, rb := range inputs {
			l, err := loadMem(rb)
			if err != nil {
				c.Violate(scope, idx, sigOf("C10", "ref-to-cur", "error: "+err.Error()), "current reader cannot load a reference-written input: "+err.Error(), cas)
				return
			}
			refIn = append(refIn, l)
		}
		xb, _, _, err := merge(refIn, r.drops, r.cfg.Out)
		if err != nil {
			c.Violate(scope, idx, sigOf("C10", "cur-merges-ref-inputs", "error: "+err.Error()), "current merger fails on reference-written inputs: "+err.Error(), cas)
			return
		}
		xl, err := loadMem(xb)
		if err == nil {
			var xo *obs.Obs
			xo, err = observe(xl)
			if err == nil {
				if d := obs.Diff(xo, want, obs.CAll&^obs.CStats); d != "" {
					c.Violate(scope, idx, sigOf("C10", "cur-merges-ref-inputs", d), "current merger over reference-written inputs: "+d, cas)
					return
				}
			}
		}
		if err != nil {
			c.Violate(scope, idx, sigOf("C10", "cur-merges-ref-inputs", "error: "+err.Error()), "output of the current merger over reference-written inputs: "+err.Error(), cas)
			return
		}
		// ... and the REFERENCE merger over inputs written by the current builder
		if !r.zeroSurvivors() {
			var curIn [][]byte
			for _, b := range r.batches {
				sg, err := build(b, 1025)
				if err != nil {
					return
				}
				cb, _, err := persist(sg)
				if err != nil {
					return
				}
				curIn = append(curIn, cb)
			}
			yb, err := refMerge(curIn, r.drops, r.cfg.Out)
			if err != nil {
				c.Violate(scope, idx, sigOf("C10", "ref-merges-cur-inputs", "error: "+err.Error()), "reference merger fails on inputs written by the current builder: "+err.Error(), cas)
				return
			}
			yo, err := refObserve(yb)
			if err != nil {
				c.Violate(scope, idx, sigOf("C10", "ref-merges-cur-inputs", "error: "+err.Error()), "reference reader on the reference merger's output over current-written inputs: "+err.Error(), cas)
				return
			}
			if d := obs.Diff(yo, want, obs.CAll&^obs.CDictCount&^obs.CStats); d != "" {
				c.Violate(scope, idx, sigOf("C10", "ref-merges-cur-inputs", d), "reference merger over inputs written by the current builder: "+d, cas)
				return
			}
		}
	}
	cfgs := []mergeCfg{{"prod", []uint32{1025}, 0, 1025, false}, {"fixed", []uint32{1025}, 0, 2, false}}
	if c.Thorough() {
		mergeSweep(c, 2, 8, 2, cfgs, check)
	} else {
		mergeSweep(c, 2, 5, 2, cfgs[:1], check)
	}
	// EMPTY-RECORD: documents without any stored field at all (not even `_id`) followed by others in
	// the same 128-document block, merged on the block-COPY path (identical field lists, no deletions)
	{
		mk := func(tag string, kinds ...int) []model.Doc {
			var b []model.Doc
			for i, k := range kinds {
				b = append(b, gen.MixDoc(k, tag, i))
			}
			return b
		}
		cases := [][][]model.Doc{
			{mk("s0", 8, 2), mk("s1", 2)},
			{mk("s0", 2, 8, 2), mk("s1", 2, 8)},
			{mk("s0", 8, 8, 2), mk("s1", 8, 2, 8)},
			{mk("s0", 8), mk("s1", 8, 2)},
		}
		for ci, bs := range cases {
			scope := "EMPTY-RECORD"
			if !c.MineIdx(scope, int64(ci)) || c.Expired() {
				continue
			}
			c.Eval()
			r, err := manualMerge(fmt.Sprintf("empty-record #%d", ci), bs, [][]uint32{nil, nil}, 1025)
			if err != nil {
				c.R.Error = "C10 EMPTY-RECORD inputs: " + err.Error()
				return
			}
			r.run()
			check(scope, int64(ci), r)
		}
	}
	// NORMS: norms with unusual float32 bit patterns (>= 2: bit 30 set; huge, maximal, denormal,
	// minimal) - the norm is an opaque float32 in postings and bit-packed in 1-hit dictionary values
	for _, nm := range model.NormModes() {
		nm := nm
		model.WithNormMode(nm, func() {
			scope := fmt.Sprintf("MIX(5,2)/norms%d", nm)
			gen.Mix(5, 2, "m", func(idx int64, batch []gen.Doc, kinds []int) bool {
				if c.MineIdx(scope, idx) {
					c10Built(c, scope, idx, batch, 1025, fmt.Sprintf("%s #%d %s", scope, idx, model.BatchString(batch)), false)
				}
				return !c.Expired()
			})
			cfg := cfgs[0]
			cfg.Name = fmt.Sprintf("prod-norms%d", nm)
			mergeSweep(c, 2, 3, 2, []mergeCfg{cfg}, check)
		})
	}
	goldenCheck(c)
}

// ---- golden corpus ----

type goldenEntry struct {
	File   string `json:"file"`
	Gen    string `json:"generator"`
	SHA256 string `json:"sha256"`
	Merged bool   `json:"merged"`
	// ModelHash pins the generator: hash of the reference model's expected observation at the time
	// the file was written. A drifted generator is a harness error, never a violation.
	ModelHash string `json:"model_hash"`
}

type goldenCase struct {
	name   string
	merged bool
	want   func() *model.LSeg
	write  func() ([]byte, error) // with the reference implementation
}

func goldenCases() []goldenCase {
	var out []goldenCase
	addBuilt := func(name string, batch func() []model.Doc, mode uint32) {
		out = append(out, goldenCase{name, false, func() *model.LSeg { return model.Build(batch()) }, func() ([]byte, error) { return refBuild(batch(), mode) }})
	}
	for _, m := range []uint32{1025, 1024, 2} {
		m := m
		addBuilt(fmt.Sprintf("mix-a-mode%d", m), func() []model.Doc {
			return []model.Doc{gen.MixDoc(2, "g", 0), gen.MixDoc(1, "g", 1), gen.MixDoc(5, "g", 2), gen.MixDoc(7, "g", 3), gen.MixDoc(9, "g", 4), gen.MixDoc(11, "g", 5)}
		}, m)
	}
	addBuilt("empty-batch", func() []model.Doc { return nil }, 1025)
	addBuilt("stored-b-0", func() []model.Doc { return storedBBatch(3, 9, 1, 4) }, 1025)
	addBuilt("stored-257", func() []model.Doc {
		b := make([]model.Doc, 257)
		for i := range b {
			b[i] = model.Doc{gen.IDField("g", i), {N: "a", St: true, Val: []byte(fmt.Sprintf("value-%d", i)), Len: 1, Terms: []model.Term{{T: "x", Freq: 1}}}}
		}
		return b
	}, 1025)
	for _, n := range []int{1025, 2049} {
		n := n
		addBuilt(fmt.Sprintf("dvc-%d-p0", n), func() []model.Doc { return dvcBatch(n, 0) }, 1025)
		addBuilt(fmt.Sprintf("dvc-%d-p7", n), func() []model.Doc { return dvcBatch(n, 7) }, 1025)
		addBuilt(fmt.Sprintf("large-%d-p0-adaptive", n), func() []model.Doc { return gen.Large(n, 0, 1) }, 1025)
		addBuilt(fmt.Sprintf("large-%d-p1-legacy", n), func() []model.Doc { return gen.Large(n, 1, 1) }, 1024)
	}
	// merges written by the reference merger
	addMerged := func(name string, b0, b1 func() []model.Doc, d0, d1 []uint32, mode uint32) {
		dropSet := func(d []uint32) map[uint64]bool {
			if d == nil {
				return nil
			}
			m := map[uint64]bool{}
			for _, x := range d {
				m[uint64(x)] = true
			}
			return m
		}
		bm := func(d []uint32) *roaring.Bitmap {
			if d == nil {
				return nil
			}
			return bitmapOf(d...)
		}
		out = append(out, goldenCase{name, true, func() *model.LSeg {
			w, _ := model.Merge([]*model.LSeg{model.Build(b0()), model.Build(b1())}, []map[uint64]bool{dropSet(d0), dropSet(d1)})
			return w
		}, func() ([]byte, error) {
			i0, err := refBuild(b0(), 1025)
			if err != nil {
				return nil, err
			}
			i1, err := refBuild(b1(), 1025)
			if err != nil {
				return nil, err
			}
			return refMerge([][]byte{i0, i1}, []*roaring.Bitmap{bm(d0), bm(d1)}, mode)
		}})
	}
	mixA := func() []model.Doc {
		return []model.Doc{gen.MixDoc(2, "p", 0), gen.MixDoc(1, "p", 1), gen.MixDoc(4, "p", 2)}
	}
	mixB := func() []model.Doc {
		return []model.Doc{gen.MixDoc(6, "q", 0), gen.MixDoc(1, "q", 1), gen.MixDoc(9, "q", 2)}
	}
	addMerged("merge-mix-nodrops", mixA, mixB, nil, nil, 1025)
	addMerged("merge-mix-drops", mixA, mixB, []uint32{1}, []uint32{0, 2}, 1025)
	addMerged("merge-mix-mode2", mixA, mixB, []uint32{0}, nil, 2)
	addMerged("merge-large", func() []model.Doc { return gen.Large(1100, 0, 1) }, func() []model.Doc { return dvcBatch(1030, 5) }, []uint32{0, 5, 1024}, []uint32{1, 1029}, 1025)
	addMerged("merge-all-dropped", mixA, func() []model.Doc { return nil }, []uint32{0, 1, 2}, nil, 1025)
	// files written under norm tables with unusual float32 bit patterns
	for _, nm := range model.NormModes() {
		nm := nm
		n0 := len(out)
		addBuilt(fmt.Sprintf("mix-norms%d", nm), mixA, 1025)
		addMerged(fmt.Sprintf("merge-mix-norms%d", nm), mixA, mixB, []uint32{1}, []uint32{0}, 1025)
		for i := n0; i < len(out); i++ {
			g := out[i]
			out[i].want = func() (l *model.LSeg) { model.WithNormMode(nm, func() { l = g.want() }); return }
			out[i].write = func() (b []byte, err error) { model.WithNormMode(nm, func() { b, err = g.write() }); return }
		}
	}
	return out
}

func goldenDir() string { return filepath.Join(explore.VerifDir(), "golden") }

// WriteGolden (re)generates the corpus with the reference implementation (tools/mkgolden).
func WriteGolden() error {
	os.MkdirAll(goldenDir(), 0o755)
	var man []goldenEntry
	for _, g := range goldenCases() {
		b, err := g.write()
		if err != nil {
			return fmt.Errorf("%s: %w", g.name, err)
		}
		sum := sha256.Sum256(b)
		if err := os.WriteFile(filepath.Join(goldenDir(), g.name+".ice"), b, 0o644); err != nil {
			return err
		}
		man = append(man, goldenEntry{g.name + ".ice", g.name, hex.EncodeToString(sum[:]), g.merged, fmt.Sprintf("%016x", explore.Hash(obs.Expected(g.want()).String()))})
	}
	return explore.WriteJSON(filepath.Join(goldenDir(), "MANIFEST.json"), man)
}

func goldenCheck(c *explore.Ctx) {
	b, err := os.ReadFile(filepath.Join(goldenDir(), "MANIFEST.json"))
	if err != nil {
		c.R.Error = "golden corpus missing: " + err.Error()
		return
	}
	var man []goldenEntry
	if err := json.Unmarshal(b, &man); err != nil {
		c.R.Error = "golden manifest: " + err.Error()
		return
	}
	cases := map[string]goldenCase{}
	for _, g := range goldenCases() {
		cases[g.name] = g
	}
	scope := "GOLDEN"
	for i, e := range man {
		if !c.MineIdx(scope, int64(i)) {
			continue
		}
		c.Eval()
		c.Nontrivial()
		g, ok := cases[e.Gen]
		if !ok {
			c.R.Error = "golden file without generator: " + e.File
			return
		}
		data, err := os.ReadFile(filepath.Join(goldenDir(), e.File))
		if err != nil {
			c.R.Error = err.Error()
			return
		}
		sum := sha256.Sum256(data)
		if hex.EncodeToString(sum[:]) != e.SHA256 {
			c.R.Error = "golden file " + e.File + " does not match its pinned SHA-256"
			return
		}
		if h := fmt.Sprintf("%016x", explore.Hash(obs.Expected(g.want()).String())); h != e.ModelHash {
			c.R.Error = "the generator of golden file " + e.File + " has changed since the file was written (regenerate with cmd/mkgolden)"
			return
		}
		cas := "golden file " + e.File + " (written by the pinned reference implementation)"
		l, err := loadMem(data)
		if err != nil {
			c.Violate(scope, int64(i), sigOf("C10", "golden-load", "error: "+err.Error()), "current reader cannot load it: "+err.Error(), cas)
			continue
		}
		o, err := observe(l)
		if err != nil {
			c.Violate(scope, int64(i), sigOf("C10", "golden-read", "error: "+err.Error()), err.Error(), cas)
			continue
		}
		comps := obs.CAll
		if e.Merged {
			comps &^= obs.CStats
		}
		if d := obs.Diff(o, obs.Expected(g.want()), comps); d != "" {
			c.Violate(scope, int64(i), sigOf("C10", "golden-read", d), "current reader reads the golden file differently from the reference model: "+d, cas)
		}
		c.Count("golden_files_read")
	}
}

var _ = ice.Version
