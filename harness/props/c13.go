package props

import (
	"fmt"
	"strings"

	"github.com/RoaringBitmap/roaring"
	segment "github.com/blugelabs/bluge_segment_api"
	ice "github.com/blugelabs/ice/v2"

	"verifharness/explore"
	"verifharness/gen"
	"verifharness/model"
	"verifharness/obs"
)

func init() {
	register(&explore.Prop{
		ID: "C13", Level: levelMC, Explorer: "E2 sequence explorer, state mode (BFS over the real private state of the reused objects)",
		Rule: "slots = one reusable PostingsList and one reusable PostingsIterator, plus one long-lived Dictionary per (segment, field); LARGE-REUSE (a 2100-document adaptive segment with terms of cardinality 2100/1050/700/5 and a small one: every sequence of <=3 lookups with the list and the iterator reused); stored-field visits alternating between two same-shaped segments and a third (every sequence of <=4 visits); a doc-value reader kept across every order of <=5 visits over {0,5,1024,last} of four 1030/2049-document segments, compared with a fresh reader per visit; operation = lookup(segment in {built multi-chunk with locations, merged with 1-hit and general terms, empty batch}, field in {with terms, known without terms, unknown}, term in {general, single-doc (1-hit in the merged segment), absent}, except in {nil, first doc, all docs}, flags in {000,100,111}, consume in {0,1,all,all+1 postings}, prealloc PostingsList in {nil, slot}, prealloc PostingsIterator in {nil, slot}), plus reiterate: the list held in the slot since an earlier lookup is asked again for Count and an iterator (with or without the slot iterator) without a new lookup; BFS over states = (VerifStatePL(slot), VerifStateIter(slot)) to a fixpoint: every reuse history of any length over this alphabet; oracle: the complete result of each lookup equals the same lookup with fresh objects and the reference model; " +
			"LARGE-REUSE serves a sequence from one long-lived Dictionary per segment and includes three single-run lists of different cardinality classes; LIVE-PAIR-BIG: a re-used iterator stepped k postings, a fresh one walking a whole list, the first continuing (location chunks of 150-300 KiB); DV-REUSE incl. chunks of 1.1 / 0.3 / 4.4 MiB; distinct/non-trivial = transitions whose lookup reuses an object last used for a different (segment, field, term, except, flags)",
		Assumptions: append(append([]string{}, commonAssumptions...), "vellum.Reader state inside a long-lived Dictionary is not part of the state key (trusted to be result-neutral)"),
		Budget:      qBudget, Run: runC13,
	})
}

type lookupOp struct {
	seg, field, term, exc, flags, consume int
	reusePL, reusePI                      bool
	// reiterate: no dictionary lookup; the postings list held in the slot since an earlier lookup is
	// used again as it is (Count, Iterator with or without the slot iterator as prealloc). It must
	// still answer what the lookup that produced it answers with fresh objects.
	reiterate bool
}

type c13Env struct {
	want   map[int]*lookupResult // fresh-object result per operation (independent of the slots)
	segs   []segment.Segment
	models []*model.LSeg
	fields []string
	terms  []string
	flags  []int
	ops    []lookupOp
}

func (o lookupOp) String(e *c13Env) string {
	if o.reiterate {
		return fmt.Sprintf("reiterate(held list, flags=%03b, consume=%d, reusePI=%v)", e.flags[o.flags], o.consume, o.reusePI)
	}
	return fmt.Sprintf("lookup(seg%d,%q,%q,exc=%d,flags=%03b,consume=%d,reusePL=%v,reusePI=%v)", o.seg, e.fields[o.field], e.terms[o.term], o.exc, e.flags[o.flags], o.consume, o.reusePL, o.reusePI)
}

func c13Batches() [][]model.Doc {
	mk := func(tag string) []model.Doc {
		var b []model.Doc
		for i := 0; i < 5; i++ {
			var d model.Doc
			var ts []model.Term
			if i != 2 {
				ts = append(ts, gen.TermKind("x", gen.KF2L1+i%2, ""))
			}
			if i == 3 {
				ts = append(ts, model.Term{T: "u", Freq: 1}) // single doc, freq 1, no locations: 1-hit when merged
			}
			if len(ts) > 0 {
				n := 0
				for _, t := range ts {
					n += t.Freq
				}
				d = append(d, model.Field{N: "a", Len: n, Terms: ts})
			}
			if i == 1 {
				d = append(d, model.Field{N: "z", St: true, Val: []byte(tag)})
			}
			b = append(b, d)
		}
		return b
	}
	return [][]model.Doc{mk("p"), mk("q"), {}}
}

func newC13Env(thorough bool) (*c13Env, error) {
	e := &c13Env{want: map[int]*lookupResult{}, fields: []string{"a", "z", "nosuch"}, terms: []string{"x", "u", "zz"}, flags: []int{0, 7}}
	if thorough {
		e.flags = []int{0, 1, 7}
	}
	bs := c13Batches()
	s0, err := build(bs[0], 2) // multi-chunk
	if err != nil {
		return nil, err
	}
	s1b, err := build(bs[1], 1025)
	if err != nil {
		return nil, err
	}
	l1 := model.Build(bs[1])
	s1, l1m, err := inputForm(s1b, l1, 2, 1025) // merged: "u" becomes 1-hit
	if err != nil {
		return nil, err
	}
	e.segs = []segment.Segment{s0, s1}
	e.models = []*model.LSeg{model.Build(bs[0]), l1m}
	if thorough {
		s2, err := build(bs[2], 1025)
		if err != nil {
			return nil, err
		}
		e.segs = append(e.segs, s2)
		e.models = append(e.models, model.Build(bs[2]))
	}
	for s := range e.segs {
		for f := range e.fields {
			for t := range e.terms {
				if f != 0 && t != 0 {
					continue // the term is irrelevant for fields without dictionary entries
				}
				for exc := 0; exc < 3; exc++ {
					for fl := range e.flags {
						for consume := 0; consume < 4; consume++ {
							for r := 0; r < 4; r++ {
								e.ops = append(e.ops, lookupOp{seg: s, field: f, term: t, exc: exc, flags: fl, consume: consume, reusePL: r&1 != 0, reusePI: r&2 != 0})
							}
						}
					}
				}
			}
		}
	}
	for fl := range e.flags {
		for consume := 0; consume < 4; consume += 2 {
			for r := 0; r < 2; r++ {
				e.ops = append(e.ops, lookupOp{flags: fl, consume: consume, reusePI: r == 1, reiterate: true})
			}
		}
	}
	// the fresh-object answer of every operation is taken NOW, before any object is reused: a reuse
	// that damages package-level state (a shared "empty" sentinel, say) must not be able to damage
	// the expectation as well
	for op, o := range e.ops {
		if o.reiterate {
			continue
		}
		var fdict segment.Dictionary
		var err error
		if msg := explore.Guard(func() { fdict, err = e.segs[o.seg].Dictionary(e.fields[o.field]) }); msg != "" || err != nil {
			return nil, fmt.Errorf("fresh Dictionary: %s", errText(msg, err))
		}
		m := &c13Machine{e: e}
		w, _, _ := doLookup(e, fdict, o, m.except(o), nil, nil)
		e.want[op] = &w
	}
	return e, nil
}

type lookupResult struct {
	err      string
	count    uint64
	postings []obs.Posting
	ended    bool
	// the optimiser's view of the iterator before it is consumed (segment.OptimizablePostingsIterator)
	opt string
}

func (r lookupResult) String() string {
	return fmt.Sprintf("err=%q count=%d ended=%v optimizable=%s postings=%v", r.err, r.count, r.ended, r.opt, r.postings)
}

type c13Machine struct {
	e     *c13Env
	dicts map[[2]int]segment.Dictionary
	pl    segment.PostingsList
	pi    segment.PostingsIterator
	// provenance of the slots (for the non-trivial rule)
	plFrom, piFrom string
	plOp           int // index of the lookup that produced the list in the slot (-1 none)
	reuseDiff      *int64
}

func (m *c13Machine) Ops() []int {
	out := make([]int, len(m.e.ops))
	for i := range out {
		out[i] = i
	}
	return out
}

func (m *c13Machine) Key() string {
	a, b := "nil", "nil"
	if m.pl != nil {
		a = ice.VerifStatePL(m.pl)
	}
	if m.pi != nil {
		b = ice.VerifStateIter(m.pi)
	}
	return a + " || " + b
}

func (m *c13Machine) exceptFor(o lookupOp) *roaring.Bitmap { return m.except(o) }

func (m *c13Machine) except(o lookupOp) *roaring.Bitmap {
	ls := m.e.models[o.seg]
	switch o.exc {
	case 1:
		ps := ls.Postings(m.e.fields[o.field], m.e.terms[o.term])
		if len(ps) > 0 {
			return bitmapOf(uint32(ps[0]))
		}
		return bitmapOf(0)
	case 2:
		b := roaring.New()
		for i := range ls.Docs {
			b.Add(uint32(i))
		}
		b.Add(uint32(len(ls.Docs))) // and one foreign document
		return b
	}
	return nil
}

func doLookup(e *c13Env, dict segment.Dictionary, o lookupOp, exc *roaring.Bitmap, prePL segment.PostingsList, prePI segment.PostingsIterator) (res lookupResult, pl segment.PostingsList, pi segment.PostingsIterator) {
	var err error
	msg := explore.Guard(func() { pl, err = dict.PostingsList([]byte(e.terms[o.term]), exc, prePL) })
	if msg != "" {
		res.err = msg
		return
	}
	if err != nil {
		res.err = "PostingsList: " + err.Error()
		return
	}
	res, pi = walkList(e, pl, o, prePI)
	return
}

// walkList asks pl for its count and an iterator and consumes it as o says.
func walkList(e *c13Env, pl segment.PostingsList, o lookupOp, prePI segment.PostingsIterator) (res lookupResult, pi segment.PostingsIterator) {
	fl := e.flags[o.flags]
	msg := explore.Guard(func() {
		var err error
		pi, err = pl.Iterator(fl&1 != 0, fl&2 != 0, fl&4 != 0, prePI)
		if err != nil {
			res.err = "Iterator: " + err.Error()
			return
		}
		// Count() of the shared empty list is 0; the shared empty iterator's Count is not called
		res.count = pl.Count()
		if o, ok := pi.(segment.OptimizablePostingsIterator); ok && pl.Count() > 0 {
			d1, is1 := o.DocNum1Hit()
			abm := "nil"
			if bm := o.ActualBitmap(); bm != nil {
				abm = bm.String()
			}
			res.opt = fmt.Sprintf("1hit=(%d,%v) actual=%s", d1, is1, abm)
		}
		limit := -1
		switch o.consume {
		case 0:
			limit = 0
		case 1:
			limit = 1
		}
		for n := 0; limit < 0 || n < limit; n++ {
			p, err := pi.Next()
			if err != nil {
				res.err = "Next: " + err.Error()
				return
			}
			if p == nil {
				res.ended = true
				break
			}
			res.postings = append(res.postings, obs.CopyPosting(p))
		}
		if o.consume == 3 && res.ended {
			if p, err := pi.Next(); p != nil || err != nil {
				res.err = fmt.Sprintf("Next after end: %v %v", p, err)
			}
		}
	})
	if msg != "" {
		res.err = msg
	}
	return
}

// Replay applies op to the slots without evaluating the oracle.
func (m *c13Machine) Replay(op int) {
	save := m.reuseDiff
	m.reuseDiff = nil
	m.apply(op)
	m.reuseDiff = save
}

func (m *c13Machine) apply(op int) (o lookupOp, exc *roaring.Bitmap, got lookupResult, errs string) {
	o = m.e.ops[op]
	if o.reiterate {
		if m.pl == nil || m.plOp < 0 {
			return o, nil, got, ""
		}
		var prePI segment.PostingsIterator
		if o.reusePI && m.pi != nil {
			prePI = m.pi
		}
		var pi segment.PostingsIterator
		got, pi = walkList(m.e, m.pl, o, prePI)
		if o.reusePI && pi != nil {
			m.pi, m.piFrom = pi, "reiterate"
		}
		return o, nil, got, ""
	}
	key := [2]int{o.seg, o.field}
	dict := m.dicts[key]
	if dict == nil {
		var err error
		if msg := explore.Guard(func() { dict, err = m.e.segs[o.seg].Dictionary(m.e.fields[o.field]) }); msg != "" || err != nil {
			return o, nil, got, "error: Dictionary: " + errText(msg, err)
		}
		m.dicts[key] = dict
	}
	exc = m.except(o)
	var prePL segment.PostingsList
	var prePI segment.PostingsIterator
	desc := fmt.Sprintf("%d/%d/%d/%d/%d", o.seg, o.field, o.term, o.exc, o.flags)
	if o.reusePL && m.pl != nil {
		prePL = m.pl
		if m.plFrom != desc && m.reuseDiff != nil {
			*m.reuseDiff++
		}
	}
	if o.reusePI && m.pi != nil {
		prePI = m.pi
		if m.piFrom != desc && m.reuseDiff != nil {
			*m.reuseDiff++
		}
	}
	var pl segment.PostingsList
	var pi segment.PostingsIterator
	got, pl, pi = doLookup(m.e, dict, o, exc, prePL, prePI)
	if o.reusePL && pl != nil {
		m.pl, m.plFrom, m.plOp = pl, desc, op
	}
	if o.reusePI && pi != nil {
		m.pi, m.piFrom = pi, desc
	}
	return o, exc, got, ""
}

func (m *c13Machine) Step(op int) string {
	if m.e.ops[op].reiterate {
		src := m.plOp
		held := m.pl
		o, _, got, _ := m.apply(op)
		if held == nil || src < 0 {
			return ""
		}
		// what the producing lookup answers with fresh objects under this operation's flags/consume
		po := m.e.ops[src]
		po.flags, po.consume, po.reusePL, po.reusePI = o.flags, o.consume, false, false
		fdict, err := m.e.segs[po.seg].Dictionary(m.e.fields[po.field])
		if err != nil {
			return "error: fresh Dictionary: " + err.Error()
		}
		save := m.e.ops[src]
		_ = save
		want, _, _ := doLookup(m.e, fdict, po, m.exceptFor(po), nil, nil)
		if got.String() != want.String() {
			return fmt.Sprintf("reuse: held-list: %s on the list produced by %s gave %s, fresh objects give %s", o.String(m.e), m.e.ops[src].String(m.e), got, want)
		}
		return ""
	}
	o, exc, got, errs := m.apply(op)
	if errs != "" {
		return errs
	}
	wantP := m.e.want[op]
	if wantP == nil {
		// the same lookup with fresh objects (fresh dictionary too); computed once per operation
		var fdict segment.Dictionary
		var err error
		if msg := explore.Guard(func() { fdict, err = m.e.segs[o.seg].Dictionary(m.e.fields[o.field]) }); msg != "" || err != nil {
			return "error: fresh Dictionary: " + errText(msg, err)
		}
		w, _, _ := doLookup(m.e, fdict, o, m.except(o), nil, nil)
		wantP = &w
		m.e.want[op] = wantP
	}
	want := *wantP
	return m.judge(o, exc, got, want)
}

func (m *c13Machine) judge(o lookupOp, exc *roaring.Bitmap, got, want lookupResult) string {
	if got.String() != want.String() {
		cls := "wrong"
		if got.err != "" {
			cls = got.err
		}
		return fmt.Sprintf("reuse: %s: %s: reused objects gave %s, fresh objects gave %s", cls, o.String(m.e), got, want)
	}
	// and the fresh result equals the model
	ls := m.e.models[o.seg]
	f, t := m.e.fields[o.field], m.e.terms[o.term]
	excl := map[uint64]bool{}
	if exc != nil {
		for _, d := range exc.ToArray() {
			excl[uint64(d)] = true
		}
	}
	var exp []uint64
	for _, d := range ls.Postings(f, t) {
		if !excl[d] {
			exp = append(exp, d)
		}
	}
	if want.err != "" {
		return fmt.Sprintf("fresh: %s: fresh lookup failed: %s", o.String(m.e), want.err)
	}
	if want.count != uint64(len(exp)) {
		return fmt.Sprintf("fresh: %s: Count %d, model %d", o.String(m.e), want.count, len(exp))
	}
	for i, p := range want.postings {
		if i >= len(exp) || p.Doc != exp[i] {
			return fmt.Sprintf("fresh: %s: postings %v, model docs %v", o.String(m.e), want.postings, exp)
		}
	}
	if o.consume >= 2 && len(want.postings) != len(exp) {
		return fmt.Sprintf("fresh: %s: postings %v, model docs %v", o.String(m.e), want.postings, exp)
	}
	return ""
}

// dvReuse: one doc-value reader kept across many documents must answer every visit like a fresh
// reader opened for that visit alone (the doc-value part of C13; C07 judges the same sequences
// against the model).
// storedAcross: STORED-ACROSS - the per-call read context of stored-field visits is recycled behind
// the API (a pool): visits alternate between two segments of identical shape (same byte ranges,
// other content) and a third one; every visit must deliver what the model says for THAT segment.
func storedAcross(c *explore.Ctx) {
	scope := "STORED-ACROSS"
	if !c.MineIdx(scope, 0) {
		return
	}
	mk := func(tag string) []model.Doc {
		var b []model.Doc
		for i, k := range []int{2, 1, 4, 2, 9, 1} {
			b = append(b, gen.MixDoc(k, tag, i))
		}
		return b
	}
	batches := [][]model.Doc{mk("a"), mk("z"), {gen.MixDoc(6, "q", 0), gen.MixDoc(2, "q", 1)}}
	var segs []segment.Segment
	var models []*model.LSeg
	for _, b := range batches {
		sg, err := build(b, 1025)
		if err != nil {
			c.Violate(scope, 0, sigOf("C13", "stored-build", "error: "+err.Error()), err.Error(), "")
			return
		}
		segs = append(segs, sg)
		models = append(models, model.Build(b))
	}
	type tgt struct {
		seg int
		doc uint64
	}
	tgts := []tgt{{0, 0}, {0, 3}, {1, 0}, {1, 3}, {2, 0}, {2, 1}}
	for n := 1; n <= 4; n++ {
		gen.Pow(len(tgts), n, func(v []int) bool {
			c.Eval()
			c.R.Distinct++
			c.Nontrivial()
			c.R.Transitions += int64(n)
			for i, ti := range v {
				t := tgts[ti]
				got, _, err := visitStored(segs[t.seg], t.doc, -1)
				want := models[t.seg].StoredOf(int(t.doc))
				if err != nil || !kvEqual(got, want) {
					c.Violate(scope, 0, "C13/stored-across/wrong", fmt.Sprintf("visit #%d of sequence %v (segment %d doc %d): got %q err=%v, want %q", i, v, t.seg, t.doc, got, err, want), "STORED-ACROSS two twin segments and a third")
					return false
				}
			}
			return true
		})
	}
}

// dvReuseSparse: one chunk, doc values on the even documents only; every order of <= 4 visits over
// {0,1,2,3,4,6} after a warm-up visit (the reader's first call does not carry state over).
func dvReuseSparse(c *explore.Ctx) {
	scope := "DV-REUSE"
	if !c.MineIdx(scope, 100) {
		return
	}
	var batch []model.Doc
	for i := 0; i < 8; i++ {
		d := model.Doc{gen.IDField("s", i)}
		if i%2 == 0 {
			d = append(d, model.Field{N: "b", Len: 1, DV: true, Terms: []model.Term{{T: fmt.Sprintf("t%d", i), Freq: 1}}})
		}
		batch = append(batch, d)
	}
	seg, err := build(batch, 1025)
	if err != nil {
		c.Violate(scope, 100, sigOf("C13", "dv-build", "error: "+err.Error()), err.Error(), "sparse")
		return
	}
	ls := model.Build(batch)
	for _, o := range orders([]uint64{0, 1, 2, 3, 4, 6}, 4) {
		c.Eval()
		c.R.Distinct++
		c.Nontrivial()
		c.R.Transitions += int64(len(o))
		if bad, _ := runDVSeq(seg, ls, []string{"b"}, o); bad != "" {
			c.Violate(scope, 100, "C13/dv-reuse/wrong", bad, "DV-REUSE sparse: doc values on even documents only")
			return
		}
	}
}

// dvReuseBigChunk: three doc-value chunks whose uncompressed sizes are 1.1 MiB, 0.3 MiB and 4.4 MiB
// (whatever a reader keeps, trims or re-uses by size); every order of <= 3 visits over two documents
// of each chunk with ONE reader (plus the warm-up variant), each visit compared with the model.
func dvReuseBigChunk(c *explore.Ctx) {
	scope := "DV-REUSE"
	if !c.MineIdx(scope, 101) {
		return
	}
	n := 2100
	batch := make([]model.Doc, n)
	for i := range batch {
		sz := []int{1100, 300, 4200}[i/1024]
		t := make([]byte, sz)
		copy(t, fmt.Sprintf("%05d-", i))
		for j := 6; j < sz; j++ {
			t[j] = byte('a' + (j*7+i)%26)
		}
		batch[i] = model.Doc{gen.IDField("c", i), {N: "b", Len: 1, DV: true, Terms: []model.Term{{T: string(t), Freq: 1}}}}
	}
	seg, err := build(batch, 1025)
	if err != nil {
		c.Violate(scope, 101, sigOf("C13", "dv-build", "error: "+err.Error()), err.Error(), "big chunks")
		return
	}
	ls := model.Build(batch)
	b, _, err := persist(seg)
	if err != nil {
		c.Violate(scope, 101, sigOf("C13", "dv-build", "error: "+err.Error()), err.Error(), "big chunks")
		return
	}
	loaded, err := loadMem(b)
	if err != nil {
		c.Violate(scope, 101, sigOf("C13", "dv-build", "error: "+err.Error()), err.Error(), "big chunks")
		return
	}
	for si, sg := range []segment.Segment{seg, loaded} {
		for _, o := range orders([]uint64{6, 7, 1030, 1031, 2050, 2099}, 3) {
			c.Eval()
			c.R.Distinct++
			c.Nontrivial()
			c.R.Transitions += int64(len(o))
			if bad, _ := runDVSeq(sg, ls, []string{"b"}, o); bad != "" {
				c.Violate(scope, 101, "C13/dv-reuse/wrong", bad, fmt.Sprintf("DV-REUSE big chunks (1.1 MiB, 0.3 MiB, 4.4 MiB uncompressed), segment form %d (0 built, 1 loaded)", si))
				return
			}
		}
	}
}

// largeReuse: LARGE-REUSE - one adaptive-mode segment of 2100 documents with terms of cardinality
// 2100, 1050, 700 and 5 (different 1024-buckets, hence different chunk sizes) and a second small
// segment: every sequence of <= 3 lookups in which the one PostingsList and the one PostingsIterator
// are reused, walked with and without locations, each compared with fresh objects.
func largeReuse(c *explore.Ctx) {
	scope := "LARGE-REUSE"
	if !c.MineIdx(scope, 0) {
		return
	}
	n := 2100
	batch := make([]model.Doc, n)
	for i := range batch {
		ts := []model.Term{{T: "all", Freq: 1 + i%2, Locs: []model.Loc{{P: 1, S: i % 200, E: i%200 + 1}}}}
		if i%2 == 0 {
			ts = append(ts, model.Term{T: "half", Freq: 1})
		}
		if i%3 == 0 {
			ts = append(ts, model.Term{T: "third", Freq: 2, Locs: []model.Loc{{P: 2, S: 125, E: 130}}})
		}
		if i%500 == 499 {
			ts = append(ts, model.Term{T: "few", Freq: 1})
		}
		// two more lists that are one run of consecutive documents each, like "all", but of other
		// cardinality classes (their bitmaps serialize to the same number of bytes)
		if i >= 1000 {
			ts = append(ts, model.Term{T: "tail", Freq: 1 + i%3})
		}
		if i < 500 {
			ts = append(ts, model.Term{T: "lead", Freq: 2})
		}
		batch[i] = model.Doc{{N: "a", Len: 3, Terms: ts}}
	}
	big, err := build(batch, 1025)
	if err != nil {
		c.Violate(scope, 0, sigOf("C13", "large-build", "error: "+err.Error()), err.Error(), "")
		return
	}
	small, err := build([]model.Doc{gen.MixDoc(2, "q", 0), gen.MixDoc(2, "q", 1)}, 2)
	if err != nil {
		c.Violate(scope, 0, sigOf("C13", "large-build", "error: "+err.Error()), err.Error(), "")
		return
	}
	type lk struct {
		seg  segment.Segment
		name string
		term string
	}
	lks := []lk{{big, "big", "all"}, {big, "big", "half"}, {big, "big", "third"}, {big, "big", "few"}, {small, "small", "x"}, {big, "big", "absent"}, {big, "big", "tail"}, {big, "big", "lead"}}
	// ONE long-lived Dictionary per segment serves all lookups of a sequence (whatever a dictionary
	// remembers of the list it read last)
	longLived := map[segment.Segment]segment.Dictionary{}
	walk := func(pl segment.PostingsList, locs bool, pre segment.PostingsIterator) (string, segment.PostingsIterator) {
		out := ""
		var it segment.PostingsIterator
		msg := explore.Guard(func() {
			var err error
			it, err = pl.Iterator(true, true, locs, pre)
			if err != nil {
				out = "ERR " + err.Error()
				return
			}
			h := uint64(14695981039346656037)
			cnt := 0
			for {
				p, err := it.Next()
				if err != nil {
					out = fmt.Sprintf("ERR after %d: %v", cnt, err)
					return
				}
				if p == nil {
					break
				}
				cnt++
				h = (h ^ explore.Hash(fmt.Sprint(obs.CopyPosting(p)))) * 1099511628211
			}
			out = fmt.Sprintf("count=%d/%d hash=%016x", pl.Count(), cnt, h)
		})
		if msg != "" {
			out = msg
		}
		return out, it
	}
	fresh := map[string]string{}
	for li, l := range lks {
		for _, locs := range []bool{false, true} {
			d, _ := l.seg.Dictionary("a")
			pl, err := d.PostingsList([]byte(l.term), nil, nil)
			if err != nil {
				c.Violate(scope, 0, sigOf("C13", "large-fresh", "error: "+err.Error()), err.Error(), "")
				return
			}
			fresh[fmt.Sprint(li, locs)], _ = walk(pl, locs, nil)
		}
	}
	for n := 2; n <= 3; n++ {
		ok := gen.Pow(len(lks)*2, n, func(v []int) bool {
			c.Eval()
			c.R.Distinct++
			c.Nontrivial()
			c.R.Transitions += int64(n)
			var pl segment.PostingsList
			var pi segment.PostingsIterator
			for i, x := range v {
				l, locs := lks[x/2], x%2 == 1
				d := longLived[l.seg]
				if d == nil {
					var err error
					d, err = l.seg.Dictionary("a")
					if err != nil {
						c.Violate(scope, 0, sigOf("C13", "large-reuse", "error: "+err.Error()), err.Error(), "")
						return false
					}
					longLived[l.seg] = d
				}
				var err error
				var npl segment.PostingsList
				msg := explore.Guard(func() { npl, err = d.PostingsList([]byte(l.term), nil, pl) })
				if msg != "" || err != nil {
					c.Violate(scope, 0, sigOf("C13", "large-reuse", "error: "+errText(msg, err)), errText(msg, err), fmt.Sprint(v))
					return false
				}
				pl = npl
				got, npi := walk(pl, locs, pi)
				if npi != nil {
					pi = npi
				}
				if want := fresh[fmt.Sprint(x/2, locs)]; got != want {
					c.Violate(scope, 0, "C13/large-reuse/wrong", fmt.Sprintf("lookup #%d of sequence %v (%s:%q locations=%v) with the reused list and iterator: %s; fresh objects: %s", i, v, l.name, l.term, locs, got, want), "LARGE-REUSE 2100-document adaptive segment")
					return false
				}
			}
			return true
		})
		if !ok {
			return
		}
	}
}

// livePairBig: LIVE-PAIR-BIG - two postings iterators alive at the same time over lists whose
// location chunks decompress to 150-300 KiB: one iterator has been used before and is handed back as
// prealloc (whatever it gave up on reset must really be given up), is stepped k postings, then a
// fresh iterator walks a whole list, then the first continues. Both must deliver what fresh,
// undisturbed iterators deliver.
func livePairBig(c *explore.Ctx) {
	scope := "LIVE-PAIR-BIG"
	if !c.MineIdx(scope, 0) {
		return
	}
	n := 600
	batch := make([]model.Doc, n)
	x := uint32(13)
	mkLocs := func(k int) []model.Loc {
		ls := make([]model.Loc, k)
		for i := range ls {
			x = x*1664525 + 1013904223
			s := int(x>>8) % 5000000
			ls[i] = model.Loc{P: i + 1 + int(x>>28), S: s, E: s + 1 + int(x>>24)%9}
		}
		return ls
	}
	for i := range batch {
		ts := []model.Term{{T: "all", Freq: 48, Locs: mkLocs(48)}}
		if i%2 == 0 {
			ts = append(ts, model.Term{T: "half", Freq: 44, Locs: mkLocs(44)})
		}
		batch[i] = model.Doc{{N: "a", Len: 92, Terms: ts}}
	}
	built, err := build(batch, 1025)
	if err != nil {
		c.Violate(scope, 0, sigOf("C13", "live-pair-build", "error: "+err.Error()), err.Error(), "")
		return
	}
	img, _, err := persist(built)
	if err != nil {
		c.Violate(scope, 0, sigOf("C13", "live-pair-build", "error: "+err.Error()), err.Error(), "")
		return
	}
	step := func(it segment.PostingsIterator, k int, h *uint64, cnt *int) string {
		for i := 0; k < 0 || i < k; i++ {
			p, err := it.Next()
			if err != nil {
				return fmt.Sprintf("ERR after %d: %v", *cnt, err)
			}
			if p == nil {
				return ""
			}
			*cnt++
			*h = (*h ^ explore.Hash(fmt.Sprint(obs.CopyPosting(p)))) * 1099511628211
		}
		return ""
	}
	list := func(seg segment.Segment, term string) (segment.PostingsList, error) {
		d, err := seg.Dictionary("a")
		if err != nil {
			return nil, err
		}
		return d.PostingsList([]byte(term), nil, nil)
	}
	terms := []string{"all", "half"}
	for form := 0; form < 2; form++ {
		seg := built
		if form == 1 {
			if seg, err = loadMem(img); err != nil {
				c.Violate(scope, 0, sigOf("C13", "live-pair-build", "error: "+err.Error()), err.Error(), "")
				return
			}
		}
		fresh := map[string]string{}
		for _, t := range terms {
			var out string
			msg := explore.Guard(func() {
				pl, err := list(seg, t)
				if err != nil {
					out = "ERR " + err.Error()
					return
				}
				it, err := pl.Iterator(true, true, true, nil)
				if err != nil {
					out = "ERR " + err.Error()
					return
				}
				h, cnt := uint64(14695981039346656037), 0
				if e := step(it, -1, &h, &cnt); e != "" {
					out = e
					return
				}
				out = fmt.Sprintf("count=%d hash=%016x", cnt, h)
			})
			if msg != "" || strings.HasPrefix(out, "ERR") {
				c.Violate(scope, 0, sigOf("C13", "live-pair-fresh", "error: "+msg+out), msg+out, "")
				return
			}
			fresh[t] = out
		}
		for _, ta := range terms { // the list the first iterator walked before it is reused
			for _, tb := range terms { // the list the reused iterator walks
				for _, tc := range terms { // the list the second, fresh iterator walks meanwhile
					for _, k := range []int{0, 1, 10, 299} {
						c.Eval()
						c.R.Distinct++
						c.Nontrivial()
						c.R.Transitions += 4
						cas := fmt.Sprintf("LIVE-PAIR-BIG form=%d: iterator walks %q, is reused for %q and stepped %d postings; a fresh iterator walks %q; the first continues", form, ta, tb, k, tc)
						var gotB, gotC string
						msg := explore.Guard(func() {
							pa, err := list(seg, ta)
							if err != nil {
								gotB = "ERR " + err.Error()
								return
							}
							it, err := pa.Iterator(true, true, true, nil)
							if err != nil {
								gotB = "ERR " + err.Error()
								return
							}
							h0, c0 := uint64(0), 0
							step(it, -1, &h0, &c0)
							pb, err := list(seg, tb)
							if err != nil {
								gotB = "ERR " + err.Error()
								return
							}
							it, err = pb.Iterator(true, true, true, it)
							if err != nil {
								gotB = "ERR " + err.Error()
								return
							}
							hb, cb := uint64(14695981039346656037), 0
							if e := step(it, k, &hb, &cb); e != "" {
								gotB = e
								return
							}
							pc, err := list(seg, tc)
							if err != nil {
								gotC = "ERR " + err.Error()
								return
							}
							it2, err := pc.Iterator(true, true, true, nil)
							if err != nil {
								gotC = "ERR " + err.Error()
								return
							}
							hc, cc := uint64(14695981039346656037), 0
							if e := step(it2, -1, &hc, &cc); e != "" {
								gotC = e
								return
							}
							gotC = fmt.Sprintf("count=%d hash=%016x", cc, hc)
							if e := step(it, -1, &hb, &cb); e != "" {
								gotB = e
								return
							}
							gotB = fmt.Sprintf("count=%d hash=%016x", cb, hb)
						})
						if msg != "" {
							c.Violate(scope, 0, sigOf("C13", "live-pair", "error: "+msg), msg, cas)
							return
						}
						if gotB != fresh[tb] || gotC != fresh[tc] {
							c.Violate(scope, 0, "C13/live-pair/wrong", fmt.Sprintf("reused iterator delivered %s (fresh: %s); the fresh iterator delivered %s (undisturbed: %s)", gotB, fresh[tb], gotC, fresh[tc]), cas)
							return
						}
					}
				}
			}
		}
	}
}

func dvReuse(c *explore.Ctx) {
	dvReuseSparse(c)
	dvReuseBigChunk(c)
	type cs struct{ n, p int }
	for ci, k := range []cs{{1030, 4}, {1030, 0}, {2049, 3}, {2049, 7}} {
		scope := "DV-REUSE"
		if !c.MineIdx(scope, int64(ci)) {
			continue
		}
		batch := dvcBatch(k.n, k.p)
		seg, err := build(batch, 1025)
		if err != nil {
			c.Violate(scope, int64(ci), sigOf("C13", "dv-build", "error: "+err.Error()), err.Error(), fmt.Sprint(k))
			continue
		}
		fields := []string{"b", "d"}
		visit := func(r segment.DocumentValueReader, d uint64) (out string) {
			msg := explore.Guard(func() {
				err := r.VisitDocumentValues(d, func(f string, t []byte) { out += f + "=" + string(t) + ";" })
				if err != nil {
					out += "ERR " + err.Error()
				}
			})
			return out + msg
		}
		// two readers used alternately, after the segment has been a merge input once (the merge walks
		// the segment's own doc-value readers): every sequence of <= 4 (reader, document) visits
		if _, _, _, err := merge([]segment.Segment{seg}, []*roaring.Bitmap{nil}, 1025); err != nil {
			c.Violate(scope, int64(ci), sigOf("C13", "dv-merge", "error: "+err.Error()), err.Error(), fmt.Sprint(k))
			continue
		}
		{
			type rv struct {
				r int
				d uint64
			}
			choices := []rv{{0, 0}, {0, 1024}, {1, 0}, {1, 1024}, {0, 5}}
			bad := false
			for n := 2; n <= 4 && !bad; n++ {
				gen.Pow(len(choices), n, func(v []int) bool {
					c.Eval()
					c.R.Distinct++
					c.Nontrivial()
					c.R.Transitions += int64(n)
					var rs [2]segment.DocumentValueReader
					rs[0], _ = seg.DocumentValueReader(fields)
					rs[1], _ = seg.DocumentValueReader(fields)
					for i, ci2 := range v {
						ch := choices[ci2]
						fresh, _ := seg.DocumentValueReader(fields)
						got, want := visit(rs[ch.r], ch.d), visit(fresh, ch.d)
						if got != want {
							c.Violate(scope, int64(ci), "C13/dv-reuse/wrong", fmt.Sprintf("two readers, visit #%d of %v (reader %d, doc %d): delivered %q, a fresh reader %q", i, v, ch.r, ch.d, got, want), fmt.Sprintf("DV-REUSE n=%d pattern=%d, two readers after a merge of the segment", k.n, k.p))
							bad = true
							return false
						}
					}
					return true
				})
			}
			if bad {
				continue
			}
		}
		docs := []uint64{0, 5, 1024, uint64(k.n - 1)}
		for _, o := range orders(docs, 5) {
			c.Eval()
			c.R.Distinct++
			c.Nontrivial()
			c.R.Transitions += int64(len(o))
			reused, err := seg.DocumentValueReader(fields)
			if err != nil {
				c.Violate(scope, int64(ci), sigOf("C13", "dv-reader", "error: "+err.Error()), err.Error(), fmt.Sprint(k))
				break
			}
			bad := false
			for i, d := range o {
				fresh, _ := seg.DocumentValueReader(fields)
				got, want := visit(reused, d), visit(fresh, d)
				if got != want {
					c.Violate(scope, int64(ci), "C13/dv-reuse/wrong", fmt.Sprintf("visit #%d of order %v (doc %d): reused reader delivered %q, a fresh reader %q", i, o, d, got, want), fmt.Sprintf("DV-REUSE n=%d pattern=%d", k.n, k.p))
					bad = true
					break
				}
			}
			if bad {
				break
			}
		}
	}
}

func runC13(c *explore.Ctx) {
	if !c.Replay || c.ReplayScope == "DV-REUSE" || c.ReplayScope == "STORED-ACROSS" || c.ReplayScope == "LARGE-REUSE" || c.ReplayScope == "LIVE-PAIR-BIG" {
		dvReuse(c)
		storedAcross(c)
		largeReuse(c)
		livePairBig(c)
		if c.Replay {
			return
		}
	}
	// the state graph is one connected search; it is partitioned over workers by the first operation
	e, err := newC13Env(c.Thorough())
	if err != nil {
		envFail(c, "C13 environment: "+err.Error())
		return
	}
	scope := "REUSE"
	var reuseDiff int64
	newM := func() explore.Machine {
		return &c13Machine{e: e, dicts: map[[2]int]segment.Dictionary{}, reuseDiff: &reuseDiff, plOp: -1}
	}
	// quick: every history of length <= 3 (every predecessor/successor pair and triple, de-duplicated by
	// state); thorough: to a fixpoint unless the state cap or the deadline ends the search first
	maxStates, maxDepth := 100000, 3
	if c.Thorough() {
		maxStates, maxDepth = 60000, 1<<30
	}
	if c.Replay {
		// the recorded index encodes nothing; the path is re-found by the same deterministic search
		c.Eval()
	}
	c.Begin(scope, int64(c.Shard))
	nviol := 0
	res := shardedBFS(c, newM, maxStates, maxDepth, func(path []int, detail string) {
		nviol++
		var ps string
		for _, op := range path {
			ps += e.ops[op].String(e) + " ; "
		}
		sig := sigOf("C13", "step", detail)
		if path != nil {
			o := e.ops[path[len(path)-1]]
			if e.fields[o.field] == "nosuch" && o.reusePL {
				sig += "/reused-list-unknown-field"
			}
		}
		c.Violate(scope, int64(path[0]), sig, detail, ps)
	})
	c.R.States += res.States
	c.R.Transitions += res.Transitions
	c.R.Evaluations += res.Transitions
	c.R.Distinct += res.Transitions
	c.R.Nontrivial += reuseDiff
	c.Add("reuse_of_object_from_different_lookup", reuseDiff)
	c.Add("ops_in_alphabet", int64(len(e.ops)))
	if int64(res.MaxDepth) > c.R.Counters["max_depth"] {
		c.R.Counters["max_depth"] = int64(res.MaxDepth)
	}
	if res.Capped && (c.Thorough() || c.R.Capped != "") {
		if c.R.Capped == "" {
			c.R.Capped = fmt.Sprintf("state cap %d reached before the fixpoint", maxStates)
		}
	}
	if !c.Thorough() {
		c.R.Notes = append(c.R.Notes, "quick tier bound: every reuse history of length <= 3 (complete for that bound, states de-duplicated)")
	}
	c.R.Samples = append(c.R.Samples, "ops alphabet e.g. "+e.ops[len(e.ops)/3].String(e)+" ; "+e.ops[len(e.ops)-1].String(e))
}

// shardedBFS runs one BFS in which every worker discovers the complete state set (cheap: a state is
// registered when first reached) but executes the outgoing transitions only of the states it owns
// (state index modulo workers). Discovery of successors needs the transitions of all states, so
// each worker runs the discovery on all states but performs the oracle comparison only on its own.
func shardedBFS(c *explore.Ctx, newM func() explore.Machine, maxStates, maxDepth int, onViol func(path []int, detail string)) explore.BFSResult {
	// Simplest sound partition: worker w explores the sub-search in which the FIRST operation of
	// every path has index = w mod workers, plus the initial state's own transitions. Reuse
	// histories starting with different first operations are explored by different workers; state
	// de-duplication is per worker.
	first := func(op int) bool {
		if c.Replay {
			return int64(op) == c.ReplayIndex
		}
		return op%c.NShards == c.Shard
	}
	return explore.BFSBounded(func() explore.Machine { return &firstOpFilter{Machine: newM(), first: first, fresh: true} }, maxStates, maxDepth, c.Expired, onViol)
}

type firstOpFilter struct {
	explore.Machine
	first func(int) bool
	fresh bool
}

func (f *firstOpFilter) Ops() []int {
	ops := f.Machine.Ops()
	if !f.fresh {
		return ops
	}
	var out []int
	for _, o := range ops {
		if f.first(o) {
			out = append(out, o)
		}
	}
	return out
}

func (f *firstOpFilter) Step(op int) string {
	f.fresh = false
	return f.Machine.Step(op)
}

func (f *firstOpFilter) Replay(op int) {
	f.fresh = false
	if r, ok := f.Machine.(explore.Replayer); ok {
		r.Replay(op)
		return
	}
	f.Machine.Step(op)
}
