//go:build verifinstr

package props

import (
	"fmt"
	"strings"

	segment "github.com/blugelabs/bluge_segment_api"

	"verifharness/explore"
	"verifharness/gen"
	"verifharness/model"
)

// BIG scenarios: the shared segment has 1100 documents (two doc-value chunks, two postings chunks,
// nine stored blocks), so that whatever a reader keeps per chunk or per block - and whatever the
// segment keeps for all its readers - is exercised by two threads that each cross a boundary.

func c09BigMenu() []c09Op {
	dv := func(name string, fields []string, docs ...uint64) c09Op {
		return c09Op{name, func(seg segment.Segment) string {
			r, err := seg.DocumentValueReader(fields)
			if err != nil {
				return "ERR " + err.Error()
			}
			var b strings.Builder
			for _, d := range docs {
				err = r.VisitDocumentValues(d, func(f string, t []byte) { fmt.Fprintf(&b, "%d:%s=%s;", d, f, t) })
				if err != nil {
					return "ERR " + err.Error()
				}
			}
			return b.String()
		}}
	}
	return []c09Op{
		dv("docvaluesBig(3,1030,5)", []string{"t", "u"}, 3, 1030, 5),
		dv("docvaluesBig(1099,4)", []string{"u", "t"}, 1099, 4),
		{"postingsBig(a,x: advance 1023, 1090)", func(seg segment.Segment) string {
			d, err := seg.Dictionary("a")
			if err != nil {
				return "ERR " + err.Error()
			}
			pl, err := d.PostingsList([]byte("x"), nil, nil)
			if err != nil {
				return "ERR " + err.Error()
			}
			it, err := pl.Iterator(true, true, true, nil)
			if err != nil {
				return "ERR " + err.Error()
			}
			var b strings.Builder
			for _, to := range []uint64{2, 1023, 1090} {
				p, err := it.Advance(to)
				if err != nil {
					return "ERR " + err.Error()
				}
				if p != nil {
					fmt.Fprintf(&b, "%d/%d;", p.Number(), p.Frequency())
				}
			}
			return b.String()
		}},
		{"storedBig(1050,3)", func(seg segment.Segment) string {
			var b strings.Builder
			for _, n := range []uint64{1050, 3} {
				err := seg.VisitStoredFields(n, func(f string, v []byte) bool {
					fmt.Fprintf(&b, "%s=%s;", f, v)
					return true
				})
				if err != nil {
					return "ERR " + err.Error()
				}
			}
			return b.String()
		}},
	}
}

// c09BigBatch: 1100 documents of which only a handful carry doc values (3, 4, 5 in the first chunk,
// 1030 and 1099 in the second) - the chunk tables stay short, so that an execution has tens, not
// thousands, of scheduling points; every document carries a:x (two postings chunks) and a stored _id.
func c09BigBatch() []model.Doc {
	b := make([]model.Doc, 1100)
	for i := range b {
		b[i] = model.Doc{gen.IDField("k", i), {N: "a", Len: 1, Terms: []model.Term{{T: "x", Freq: 1 + i%2}}}}
		switch i {
		case 3, 1030:
			b[i] = append(b[i], model.Field{N: "t", Len: 1, DV: true, Terms: []model.Term{{T: fmt.Sprintf("tag%d", i), Freq: 1}}},
				model.Field{N: "u", Len: 1, DV: true, Terms: []model.Term{{T: fmt.Sprintf("u%d", i), Freq: 1}}})
		case 4, 5, 1099:
			b[i] = append(b[i], model.Field{N: "t", Len: 1, DV: true, Terms: []model.Term{{T: fmt.Sprintf("tag%d", i), Freq: 1}}})
		}
	}
	return b
}

func c09Big(c *explore.Ctx, shardOffset int) {
	c09Env(c, "BIG", c09BigBatch(), c09BigMenu(), 2, []int{0, 1, 2}, shardOffset)
	// BIGLOC: location chunks of 150-300 KiB; one thread re-uses its iterator (prealloc) for a second
	// list while the other walks with a fresh one. Executions are long (tens of thousands of
	// locations), so the pairs are explored at preemption bound 1.
	c09Env(c, "BIGLOC", c09BigLocBatch(), c09BigLocMenu(), 1, []int{0}, shardOffset+3)
}

func c09BigLocBatch() []model.Doc {
	n := 600
	batch := make([]model.Doc, n)
	x := uint32(13)
	mkLocs := func(k int) []model.Loc {
		ls := make([]model.Loc, k)
		for i := range ls {
			x = x*1664525 + 1013904223
			s := int(x>>8) % 5000000
			ls[i] = model.Loc{P: i + 1 + int(x>>28), S: s, E: s + 1 + int(x>>24)%9}
		}
		return ls
	}
	for i := range batch {
		ts := []model.Term{{T: "all", Freq: 48, Locs: mkLocs(48)}}
		if i%2 == 0 {
			ts = append(ts, model.Term{T: "half", Freq: 44, Locs: mkLocs(44)})
		}
		batch[i] = model.Doc{gen.IDField("l", i), {N: "a", Len: 92, Terms: ts}}
	}
	return batch
}

func c09BigLocMenu() []c09Op {
	walk := func(seg segment.Segment, term string, pre segment.PostingsIterator, b *strings.Builder) (segment.PostingsIterator, string) {
		d, err := seg.Dictionary("a")
		if err != nil {
			return nil, "ERR " + err.Error()
		}
		pl, err := d.PostingsList([]byte(term), nil, nil)
		if err != nil {
			return nil, "ERR " + err.Error()
		}
		it, err := pl.Iterator(true, true, true, pre)
		if err != nil {
			return nil, "ERR " + err.Error()
		}
		h, n := uint64(14695981039346656037), 0
		for {
			p, err := it.Next()
			if err != nil {
				return nil, "ERR " + err.Error()
			}
			if p == nil {
				break
			}
			n++
			for _, l := range p.Locations() {
				h = (h ^ uint64(l.Start())*31 ^ uint64(l.End())) * 1099511628211
			}
		}
		fmt.Fprintf(b, "%s:%d:%016x;", term, n, h)
		return it, ""
	}
	return []c09Op{
		{"postingsLocs(all, then half with the same iterator)", func(seg segment.Segment) string {
			var b strings.Builder
			it, e := walk(seg, "all", nil, &b)
			if e != "" {
				return e
			}
			if _, e = walk(seg, "half", it, &b); e != "" {
				return e
			}
			return b.String()
		}},
		{"postingsLocs(half, fresh iterator)", func(seg segment.Segment) string {
			var b strings.Builder
			if _, e := walk(seg, "half", nil, &b); e != "" {
				return e
			}
			return b.String()
		}},
	}
}

func c09Env(c *explore.Ctx, prefix string, batch []model.Doc, menu []c09Op, bound int, finalOps []int, shardOffset int) {
	built, err := build(batch, 1025)
	if err != nil {
		envFail(c, "C09 "+prefix+" environment: "+err.Error())
		return
	}
	img, _, err := persist(built)
	if err != nil {
		envFail(c, "C09 "+prefix+" environment: "+err.Error())
		return
	}
	fresh := func() segment.Segment {
		s, err := loadMem(img)
		if err != nil {
			panic(err)
		}
		return s
	}
	solo := make([]string, len(menu))
	for i, op := range menu {
		solo[i] = guardStr(func() string { return op.run(fresh()) })
		if strings.HasPrefix(solo[i], "ERR") || strings.HasPrefix(solo[i], "panic") {
			envFail(c, "C09 "+prefix+" solo run of "+op.name+" failed: "+solo[i])
			return
		}
	}
	var scs []c09Scenario
	for i := range menu {
		for j := i; j < len(menu); j++ {
			scs = append(scs, c09Scenario{fmt.Sprintf("%s-pair[%s|%s]", prefix, menu[i].name, menu[j].name), nil, []int{i, j}, bound})
		}
	}
	for si, sc := range scs {
		if c.Expired() {
			break
		}
		if c.Replay {
			if strings.HasPrefix(c.ReplayScope, sc.name+"|") {
				runScenario(c, sc, menu, solo, fresh, finalOps, false)
			}
			continue
		}
		if (si+shardOffset)%c.NShards == c.Shard {
			runScenario(c, sc, menu, solo, fresh, finalOps, false)
		}
	}
	c.Add("scenarios", int64(len(scs)))
}
