//go:build verifinstr

package props

import (
	"bytes"
	"errors"
	"fmt"

	segment "github.com/blugelabs/bluge_segment_api"
	"github.com/blugelabs/ice/v2/verifrt"

	"verifharness/explore"
)

func init() { c12PollSweep = pollSweep }

// pollSweep closes the close channel immediately before the p-th poll (`select`) of the merge,
// for every p: the finest cancellation schedule a single closer can produce, since the merge
// observes the channel only at its polls.
func pollSweep(c *explore.Ctx, wls []c12Workload) {
	defer func() { verifrt.PollHook = nil }()
	for wi, wl := range wls {
		if !wl.isMerge {
			continue
		}
		scope := fmt.Sprintf("POLLS-WL%d", wi)
		ref := &faultWriter{failAt: -1, closeAt: -1}
		polls := 0
		verifrt.PollHook = func(string) { polls++ }
		n0, err := wl.run(ref, make(chan struct{}), 4096)
		verifrt.PollHook = nil
		if err != nil || n0 != int64(len(ref.buf)) {
			continue // reported by the main sweep
		}
		total := polls
		var idx int64
		bufSizes := []int{1, 4096}
		if wl.pollsOnly {
			bufSizes = []int{4096}
		}
		for _, bufSize := range bufSizes {
			for p := 0; p <= total; p++ {
				if wl.pollsOnly && p >= 64 && p < total-256 {
					continue
				}
				my := idx
				idx++
				if !c.MineIdx(scope, my) {
					continue
				}
				c.Eval()
				ch := make(chan struct{})
				seen, closed := 0, false
				verifrt.PollHook = func(string) {
					if seen == p && !closed {
						close(ch)
						closed = true
					}
					seen++
				}
				w := &faultWriter{failAt: -1, closeAt: -1}
				n, err := wl.run(w, ch, bufSize)
				verifrt.PollHook = nil
				cas := fmt.Sprintf("%s: close channel closed immediately before poll #%d of %d, bufSize=%d", wl.name, p, total, bufSize)
				c.Sample(my, func() string { return cas })
				if closed {
					c.Nontrivial()
				}
				complete := err == nil && bytes.Equal(w.buf, ref.buf) && n == int64(len(ref.buf))
				if !(errors.Is(err, segment.ErrClosed) || complete) {
					kind := "partial-success"
					if err != nil {
						kind = "other-error"
					}
					c.Violate(scope, my, "C12/cancel-at-poll/"+kind, fmt.Sprintf("n=%d err=%v bytes=%d/%d identical=%v", n, err, len(w.buf), len(ref.buf), bytes.Equal(w.buf, ref.buf)), cas)
				}
				if closed && err == nil {
					c.Count("closed_at_poll_but_completed")
				}
				if c.Expired() {
					return
				}
			}
		}
		c.Add("polls_enumerated", int64(total+1))
	}
}
