package props

import (
	"fmt"

	"github.com/RoaringBitmap/roaring"
	segment "github.com/blugelabs/bluge_segment_api"

	"verifharness/explore"
	"verifharness/gen"
	"verifharness/model"
)

func init() {
	register(&explore.Prop{
		ID: "C07", Level: levelMC, Explorer: "E1 input-space enumerator + E2 path mode (visit orders with one reader)",
		Rule: "DV-S (<=3 docs; per doc every subset of {x,y,\"\"} in doc-value field b, d in {absent,x}, a in {absent,y}) built and self-merged: readers on every ordered subset of {a,b,d,unknown} x every visiting order of length <=3 with one reader (each order also after a warm-up visit: the reader's first call does not carry state over); DV-C (1023..1026, 2047..2049 docs x 8 placement patterns: empty chunk, only last doc of a chunk, ...) built / loaded / merged with renumbering across the 1024 boundary: every order of length <=3 (thorough <=4) over the documents of interest {0,1,1023,1024,1025,2047,2048,last} and every order of length 4..5 over {0,1024,last}; MIX batches; merges of segments with inconsistent doc-value flags (per-source oracle); " +
			"the ZOO: every member with more than 6 documents is walked completely by one reader (all documents upwards, chunk edges downwards), incl. dv-header-widths (19 500 documents) and dv-incompressible-5mib; distinct = (segment, form, field list, visit order); non-trivial = some visit returns >=1 term; counters.cross_chunk_or_backward = orders with consecutive visits in different chunks or backwards",
		Assumptions: commonAssumptions, Budget: qBudget, Run: runC07,
	})
}

func dvExpected(want *model.LSeg, doc uint64, fields []string) []model.KV {
	var out []model.KV
	for _, f := range fields {
		if !want.HasField(f) {
			continue
		}
		for _, t := range want.DocValues(int(doc), f) {
			out = append(out, model.KV{F: f, V: t})
		}
	}
	return out
}

// runDVSeq opens one reader on fields and visits docs in order; returns the first mismatch.
// runDVSeq visits the documents of order with ONE reader, twice: as given, and after a warm-up
// visit of the order's first document. (ice discards the per-field reader state built by a
// reader's very FIRST call - its visit state has no segment yet and is rebuilt on the second call -
// so without the warm-up an order of n visits exercises carried-over state for n-1 of them only.)
func runDVSeq(seg segment.Segment, want *model.LSeg, fields []string, order []uint64) (bad string, any bool) {
	bad, any = runDVSeq1(seg, want, fields, order)
	if bad != "" || len(order) == 0 {
		return bad, any
	}
	warmed := append([]uint64{order[0]}, order...)
	bad, _ = runDVSeq1(seg, want, fields, warmed)
	if bad != "" {
		bad += " [after a warm-up visit]"
	}
	return bad, any
}

func runDVSeq1(seg segment.Segment, want *model.LSeg, fields []string, order []uint64) (bad string, any bool) {
	var rd segment.DocumentValueReader
	var err error
	msg := explore.Guard(func() { rd, err = seg.DocumentValueReader(fields) })
	if msg != "" || err != nil {
		return "error: " + errText(msg, err), false
	}
	for i, d := range order {
		var got []model.KV
		msg := explore.Guard(func() {
			err = rd.VisitDocumentValues(d, func(f string, t []byte) {
				got = append(got, model.KV{F: f, V: string(t)})
			})
		})
		if msg != "" || err != nil {
			return fmt.Sprintf("error: visit #%d doc %d: %s", i, d, errText(msg, err)), any
		}
		w := dvExpected(want, d, fields)
		if len(w) > 0 {
			any = true
		}
		if !kvEqual(got, w) {
			ord := fmt.Sprint(order)
			if len(order) > 24 {
				ord = fmt.Sprintf("%v ... (%d visits)", order[:24], len(order))
			}
			return fmt.Sprintf("values: visit #%d doc %d (order %s fields %q): got %.300q want %.300q", i, d, ord, fields, got, w), any
		}
	}
	return "", any
}

func orderedSubsets(items []string) [][]string {
	var out [][]string
	var rec func(cur []string, used int)
	rec = func(cur []string, used int) {
		out = append(out, append([]string(nil), cur...))
		for i, it := range items {
			if used&(1<<uint(i)) == 0 {
				rec(append(cur, it), used|1<<uint(i))
			}
		}
	}
	rec(nil, 0)
	return out
}

func orders(docs []uint64, maxLen int) [][]uint64 {
	var out [][]uint64
	if len(docs) == 0 {
		return nil
	}
	for n := 1; n <= maxLen; n++ {
		gen.Pow(len(docs), n, func(v []int) bool {
			o := make([]uint64, n)
			for i, x := range v {
				o[i] = docs[x]
			}
			out = append(out, o)
			return true
		})
	}
	return out
}

const NDVPatterns = 8

func dvPattern(p, i, n int) bool {
	switch p {
	case 0:
		return true
	case 1:
		return i == 1023 // only the last doc of chunk 0
	case 2:
		return i == 1024 // only the first doc of chunk 1
	case 3:
		return i >= 1024 // chunk 0 empty
	case 4:
		return i < 1024 // later chunks empty
	case 5:
		return i%2 == 1
	case 6:
		return i == 0 || i == n-1
	case 7:
		return i%1024 <= 1 || i%1024 >= 1022
	}
	return false
}

func dvcBatch(n, p int) []model.Doc {
	batch := make([]model.Doc, n)
	for i := range batch {
		if dvPattern(p, i, n) {
			ts := []model.Term{{T: fmt.Sprintf("t%d", i%7), Freq: 1}}
			if i%3 == 0 {
				ts = append(ts, model.Term{T: "", Freq: 1})
			}
			batch[i] = model.Doc{{N: "b", Len: len(ts), Terms: ts, DV: true}}
			if i%5 == 0 {
				batch[i] = append(batch[i], model.Field{N: "d", Len: 1, Terms: []model.Term{{T: fmt.Sprintf("d%d", i), Freq: 1}}, DV: true})
			}
		} else {
			batch[i] = model.Doc{{N: "a", Len: 1, Terms: []model.Term{{T: "x", Freq: 1}}}}
		}
	}
	return batch
}

func interestDocs(n int) []uint64 {
	var out []uint64
	for _, d := range []int{0, 1, 1023, 1024, 1025, 2047, 2048, n - 1} {
		if d >= 0 && d < n {
			dup := false
			for _, x := range out {
				if x == uint64(d) {
					dup = true
				}
			}
			if !dup {
				out = append(out, uint64(d))
			}
		}
	}
	return out
}

func runC07(c *explore.Ctx) {
	fieldSets := orderedSubsets([]string{"a", "b", "d", "nosuch"})
	// DV-S
	withA := c.Thorough()
	for fi, form := range []string{"built", "merged"} {
		gen.DVS(3, withA, func(idx int64, batch []gen.Doc) bool {
			scope := "DV-S/" + form
			if !c.MineIdx(scope, idx) {
				return true
			}
			c.Eval()
			ls := model.Build(batch)
			cas := fmt.Sprintf("%s #%d %s", scope, idx, model.BatchString(batch))
			c.Sample(idx, func() string { return cas })
			seg, err := build(batch, 1025)
			if err != nil {
				c.Violate(scope, idx, sigOf("C07", "build", "error: "+err.Error()), err.Error(), cas)
				return true
			}
			want := ls
			if fi == 1 {
				seg, want, err = inputForm(seg, ls, 2, 1025)
				if err != nil {
					c.Violate(scope, idx, sigOf("C07", "form", "error: "+err.Error()), err.Error(), cas)
					return true
				}
			}
			var docs []uint64
			for i := range batch {
				docs = append(docs, uint64(i))
			}
			docs = append(docs, uint64(len(batch))) // one out-of-range document
			ords := orders(docs, 3)
			nt := false
			for _, fs := range fieldSets {
				for _, o := range ords {
					c.R.Transitions += int64(len(o))
					c.R.States++
					bad, any := runDVSeq(seg, want, fs, o)
					nt = nt || any
					if bad != "" {
						c.Violate(scope, idx, sigOf("C07", form, bad), bad, cas)
						return !c.Expired()
					}
				}
			}
			if nt {
				c.Nontrivial()
			}
			return !c.Expired()
		})
	}
	// MIX
	gen.Mix(8, 3, "m", func(idx int64, batch []gen.Doc, kinds []int) bool {
		scope := "MIX(8,3)"
		if !c.MineIdx(scope, idx) {
			return true
		}
		c.Eval()
		ls := model.Build(batch)
		cas := fmt.Sprintf("%s #%d %s", scope, idx, model.BatchString(batch))
		seg, err := build(batch, 1025)
		if err != nil {
			c.Violate(scope, idx, sigOf("C07", "build", "error: "+err.Error()), err.Error(), cas)
			return true
		}
		var docs []uint64
		for i := range batch {
			docs = append(docs, uint64(i))
		}
		nt := false
		for _, fs := range [][]string{{"a", "b", "c", "d", "z", "_id"}, {"d", "b"}, {"b"}} {
			for _, o := range orders(docs, 3) {
				c.R.Transitions += int64(len(o))
				c.R.States++
				bad, any := runDVSeq(seg, ls, fs, o)
				nt = nt || any
				if bad != "" {
					c.Violate(scope, idx, sigOf("C07", "mix", bad), bad, cas)
					return !c.Expired()
				}
			}
		}
		if nt {
			c.Nontrivial()
		}
		return !c.Expired()
	})
	// DV-LONG: documents with 1200 terms each in a doc-value field (a value of > 16 383 bytes), next
	// to short ones, in a field with a high id
	if c.MineIdx("DV-LONG", 0) {
		c.Eval()
		c.Nontrivial()
		var batch []model.Doc
		for d := 0; d < 4; d++ {
			doc := model.Doc{}
			for f := 0; f < 130; f++ { // filler fields so that the doc-value field gets a high id
				if d == 0 {
					doc = append(doc, model.Field{N: fmt.Sprintf("e%03d", f), Len: 1, Terms: []model.Term{{T: "q", Freq: 1}}})
				}
			}
			var ts []model.Term
			nt := 1200
			if d%2 == 1 {
				nt = 2
			}
			for t := 0; t < nt; t++ {
				ts = append(ts, model.Term{T: fmt.Sprintf("term-%04d-of-doc-%d", t, d), Freq: 1})
			}
			doc = append(doc, model.Field{N: "zdv", Len: len(ts), Terms: ts, DV: true})
			batch = append(batch, doc)
		}
		ls := model.Build(batch)
		if seg, err := build(batch, 1025); err != nil {
			c.Violate("DV-LONG", 0, sigOf("C07", "build", "error: "+err.Error()), err.Error(), "DV-LONG")
		} else {
			for _, o := range orders([]uint64{0, 1, 2, 3}, 3) {
				if bad, _ := runDVSeq(seg, ls, []string{"zdv", "e000"}, o); bad != "" {
					c.Violate("DV-LONG", 0, sigOf("C07", "long", bad), bad, "DV-LONG")
					break
				}
			}
		}
	}
	// inconsistent per-segment doc-value flags: per-source oracle
	{
		scope := "DV-INCONSISTENT"
		var idx int64
		for _, v0 := range []int{0, 1, 2} { // first segment: doc values on b / b without doc values / no field b at all
			dv0 := v0 == 0
			for _, dv1 := range []bool{true, false} {
				for _, drop := range []int{-1, 0, 1} {
					my := idx
					idx++
					if !c.MineIdx(scope, my) {
						continue
					}
					c.Eval()
					c.Nontrivial()
					mk := func(tag string, dv bool) []model.Doc {
						return []model.Doc{
							{{N: "b", Len: 2, Terms: []model.Term{{T: tag + "1", Freq: 1}, {T: "x", Freq: 1}}, DV: dv}},
							{{N: "b", Len: 1, Terms: []model.Term{{T: tag + "2", Freq: 1}}, DV: dv}},
						}
					}
					b0, b1 := mk("p", dv0), mk("q", dv1)
					if v0 == 2 {
						b0 = []model.Doc{{{N: "a", Len: 1, Terms: []model.Term{{T: "x", Freq: 1}}}}, {{N: "a", Len: 1, Terms: []model.Term{{T: "y", Freq: 1}}}}, {}}
					}
					s0, err0 := build(b0, 1025)
					s1, err1 := build(b1, 1025)
					if err0 != nil || err1 != nil {
						c.Violate(scope, my, "C07/inconsistent/build", fmt.Sprint(err0, err1), "")
						continue
					}
					var dr *roaring.Bitmap
					var ds map[uint64]bool
					if drop >= 0 {
						dr, ds = bitmapOf(uint32(drop)), map[uint64]bool{uint64(drop): true}
					}
					cas := fmt.Sprintf("%s #%d first-segment-variant=%d (0 doc values, 1 no doc values, 2 no such field) dv1=%v drop0=%d", scope, my, v0, dv1, drop)
					mb, _, _, err := merge([]segment.Segment{s0, s1}, []*roaring.Bitmap{dr, nil}, 1025)
					if err != nil {
						c.Violate(scope, my, sigOf("C07", "inconsistent-merge", "error: "+err.Error()), err.Error(), cas)
						continue
					}
					l, err := loadMem(mb)
					if err != nil {
						c.Violate(scope, my, sigOf("C07", "inconsistent-load", "error: "+err.Error()), err.Error(), cas)
						continue
					}
					want, _ := model.Merge([]*model.LSeg{model.Build(b0), model.Build(b1)}, []map[uint64]bool{ds, nil})
					var docs []uint64
					for i := range want.Docs {
						docs = append(docs, uint64(i))
					}
					for _, o := range orders(docs, 3) {
						if bad, _ := runDVSeq(l, want, []string{"b"}, o); bad != "" {
							c.Violate(scope, my, sigOf("C07", "inconsistent", bad), bad, cas)
							break
						}
					}
				}
			}
		}
	}
	// DV-C
	sizes := []int{1023, 1024, 1025, 1026, 2047, 2048, 2049}
	maxLen := 3
	if c.Thorough() {
		maxLen = 4
	}
	var idx int64
	for _, n := range sizes {
		for p := 0; p < NDVPatterns; p++ {
			scope := "DV-C"
			my := idx
			idx++
			if !c.MineIdx(scope, my) || c.Expired() {
				continue
			}
			c.Eval()
			batch := dvcBatch(n, p)
			ls := model.Build(batch)
			cas := fmt.Sprintf("DV-C #%d n=%d pattern=%d", my, n, p)
			c.Sample(my, func() string { return cas })
			seg, err := build(batch, 1025)
			if err != nil {
				c.Violate(scope, my, sigOf("C07", "build", "error: "+err.Error()), err.Error(), cas)
				continue
			}
			type fs struct {
				name string
				seg  segment.Segment
				want *model.LSeg
			}
			forms := []fs{{"built", seg, ls}}
			if b, _, err := persist(seg); err == nil {
				if l, err := loadMem(b); err == nil {
					forms = append(forms, fs{"loaded", l, ls})
				}
			}
			// merged with renumbering: drop docs 0..6 (shift -7), and after a 5-doc segment (shift +5)
			dr, ds := roaring.New(), map[uint64]bool{}
			for i := 0; i < 7; i++ {
				dr.Add(uint32(i))
				ds[uint64(i)] = true
			}
			if mb, _, _, err := merge([]segment.Segment{seg}, []*roaring.Bitmap{dr}, 1025); err == nil {
				if l, err := loadMem(mb); err == nil {
					ml, _ := model.Merge([]*model.LSeg{ls}, []map[uint64]bool{ds})
					forms = append(forms, fs{"merged-shift-7", l, ml})
				} else {
					c.Violate(scope, my, sigOf("C07", "merged-load", "error: "+err.Error()), err.Error(), cas)
				}
			} else {
				c.Violate(scope, my, sigOf("C07", "merge", "error: "+err.Error()), err.Error(), cas)
			}
			for _, pre := range [][]model.Doc{dvcBatch(5, 0), dvcBatch(5, 99)} { // the second has no doc-value field at all
				if ps, err := build(pre, 1025); err == nil {
					if mb, _, _, err := merge([]segment.Segment{ps, seg}, []*roaring.Bitmap{nil, nil}, 1025); err == nil {
						if l, err := loadMem(mb); err == nil {
							ml, _ := model.Merge([]*model.LSeg{model.Build(pre), ls}, []map[uint64]bool{nil, nil})
							forms = append(forms, fs{"merged-shift+5", l, ml})
						}
					} else {
						c.Violate(scope, my, sigOf("C07", "merge", "error: "+err.Error()), err.Error(), cas)
					}
				}
			}
			nt := false
			for _, f := range forms {
				docs := interestDocs(len(f.want.Docs))
				for _, o := range orders(docs, maxLen) {
					c.R.Transitions += int64(len(o))
					c.R.States++
					for i := 1; i < len(o); i++ {
						if o[i]/1024 != o[i-1]/1024 || o[i] < o[i-1] {
							c.Count("cross_chunk_or_backward")
							break
						}
					}
					bad, any := runDVSeq(f.seg, f.want, []string{"b", "d", "a"}, o)
					nt = nt || any
					if bad != "" {
						c.Violate(scope, my, sigOf("C07", f.name, bad), bad, cas+" form="+f.name)
						break
					}
				}
				// longer orders over three documents (first, first of the second chunk, last): a reader
				// settles into its steady state only from its third call on
				nd := len(f.want.Docs)
				three := []uint64{0, uint64(nd - 1)}
				if nd > 1024 {
					three = []uint64{0, 1024, uint64(nd - 1)}
				}
				for _, o := range orders(three, 5) {
					if len(o) < 4 {
						continue
					}
					c.R.Transitions += int64(len(o))
					c.R.States++
					if bad, _ := runDVSeq(f.seg, f.want, []string{"b", "d"}, o); bad != "" {
						c.Violate(scope, my, sigOf("C07", f.name+"-long", bad), bad, cas+" form="+f.name)
						break
					}
				}
				// and every document once, in order, with a single reader (the merger's access pattern)
				all := make([]uint64, len(f.want.Docs))
				for i := range all {
					all[i] = uint64(i)
				}
				if bad, _ := runDVSeq(f.seg, f.want, []string{"d", "b"}, all); bad != "" {
					c.Violate(scope, my, sigOf("C07", f.name+"-scan", bad), bad, cas+" form="+f.name)
				}
			}
			if nt {
				c.Nontrivial()
			}
		}
	}
	zooEach(c, true, func(idx int64, z *zooSeg) { zooDocValues(c, idx, z) })
}
