// Package props holds one driver per property: alphabet + bound + oracle.
package props

import (
	"sort"

	"verifharness/explore"
)

var registry = map[string]*explore.Prop{}

func register(p *explore.Prop) { registry[p.ID] = p }

func Lookup(id string) *explore.Prop { return registry[id] }

func IDs() []string {
	var out []string
	for k := range registry {
		out = append(out, k)
	}
	sort.Strings(out)
	return out
}
