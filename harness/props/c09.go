//go:build verifinstr

package props

import (
	"encoding/json"
	"fmt"
	"sort"
	"strconv"
	"strings"
	"time"

	segment "github.com/blugelabs/bluge_segment_api"
	"github.com/blugelabs/ice/v2/verifrt"

	"verifharness/explore"
	"verifharness/gen"
	"verifharness/model"
)

func init() {
	register(&explore.Prop{
		ID: "C09", Level: levelMC, Explorer: "E4 schedule explorer (cooperative scheduler + preemption-bounded DFS + happens-before monitor) + deterministic nesting sweep",
		Instr: true,
		Rule: "instrumented build (scheduling points inserted automatically before every statement touching package-level state or a Segment/footer object that some thread writes (reads of never-written locations commute; the written set is computed as a fixpoint at run time), and at every object seen from two threads, sync primitives replaced by scheduler-aware shims); shared segment = 130-document two-block segment loaded fresh for every execution, in cold / warm-FST / warm-stored-block / after-an-out-of-range-visit variants; thread bodies from a menu of 13 operations chosen to collide (stored visit in block 0 / block 1 / same block / out of range, first Dictionary of the same / another field, postings walk, two doc-value readers, DocsMatchingTerms, WriteTo, Merge([S,S']) with S first and differing field lists, Merge([T,S]) with S last and identical field lists); element accesses of slices and maps are recorded by backing array, also through local aliases; every unordered pair at preemption bound 2 (pairs with the merge: bound 1 quick / 2 thorough), reader triples at bound 1 (thorough: bound 2), iterative bounding 0,1,2; plus every nesting of a menu operation inside every callback of a stored-field / doc-value visit; " +
			"oracle: each thread's observation equals its solo observation, no panic, no deadlock, no happens-before race on any recorded (object, field), segment still answers as before; distinct = schedules; non-trivial = schedules with >=1 preemption",
		Assumptions: []string{"statement-level atomicity; races below statement granularity and inside roaring/vellum/zstd are outside the scheduler's model (the thorough tier adds a free-running -race pass as supplementary, non-exhaustive evidence)", "preemption bound 2, <=3 threads", "instrumenter self-check: the repository's 31 tests pass on the instrumented overlay (bin/setup.sh)"},
		Budget:      qBudget, Run: runC09,
	})
}

var rtCfg = &verifrt.Config{AlwaysShared: map[string]bool{"*ice.Segment": true, "*ice.footer": true}, HotSites: map[string]bool{}, Written: map[string]bool{}, Promoted: map[string]bool{}}

type c09Scenario struct {
	name    string
	warm    []int
	threads []int
	bound   int
}

func runC09(c *explore.Ctx) {
	batch := c09Batch()
	built, err := build(batch, 1025)
	if err != nil {
		envFail(c, "C09 environment: "+err.Error())
		return
	}
	img, _, err := persist(built)
	if err != nil {
		envFail(c, "C09 environment: "+err.Error())
		return
	}
	other, err := build([]model.Doc{gen.MixDoc(2, "o", 0), gen.MixDoc(1, "o", 1)}, 1025)
	if err != nil {
		envFail(c, "C09 environment: "+err.Error())
		return
	}
	sameSchema, err := build(c09Batch()[:4], 1025)
	if err != nil {
		envFail(c, "C09 environment: "+err.Error())
		return
	}
	otherImg, _, err1 := persist(other)
	sameImg, _, err2 := persist(sameSchema)
	if err1 != nil || err2 != nil {
		envFail(c, fmt.Sprint("C09 environment: ", err1, err2))
		return
	}
	pt := &c09Partners{}
	menu := c09Menu(pt)
	mergeOp2, mergeOp, writeOp := len(menu)-1, len(menu)-2, len(menu)-3
	fresh := func() segment.Segment {
		s, err := loadMem(img)
		if err != nil {
			panic(err)
		}
		if pt.other, err = loadMem(otherImg); err != nil {
			panic(err)
		}
		if pt.sameSchema, err = loadMem(sameImg); err != nil {
			panic(err)
		}
		return s
	}
	solo := make([]string, len(menu))
	for i, op := range menu {
		solo[i] = guardStr(func() string { return op.run(fresh()) })
		if strings.HasPrefix(solo[i], "ERR") || strings.HasPrefix(solo[i], "panic") {
			envFail(c, "C09 solo run of "+op.name+" failed: "+solo[i])
			return
		}
	}
	finalOps := []int{0, 1, 3}

	// ---- scenarios ----
	var scs []c09Scenario
	oorOp := writeOp - 1
	warmVariants := [][]int{nil, {3}, {1}, {oorOp}} // cold, warm FST cache of field a, warm stored block 1, after an out-of-range visit
	pairBound, mergeBound, tripleBound := 2, 1, 1
	if c.Thorough() {
		mergeBound, tripleBound = 2, 2
	}
	for i := range menu {
		for j := i; j < len(menu); j++ {
			b := pairBound
			if i >= mergeOp || j >= mergeOp {
				b = mergeBound
			}
			for wi, w := range warmVariants {
				if wi > 0 && (i >= writeOp || j >= writeOp) {
					continue // warm variants only for the light reader pairs
				}
				scs = append(scs, c09Scenario{fmt.Sprintf("pair[%s|%s]warm%d", menu[i].name, menu[j].name, wi), w, []int{i, j}, b})
			}
		}
	}
	readers := []int{0, 1, 3, 4, 5, 6, 8, oorOp}
	for a := 0; a < len(readers); a++ {
		for b := a; b < len(readers); b++ {
			for d := b; d < len(readers); d++ {
				i, j, k := readers[a], readers[b], readers[d]
				scs = append(scs, c09Scenario{fmt.Sprintf("triple[%s|%s|%s]", menu[i].name, menu[j].name, menu[k].name), nil, []int{i, j, k}, tripleBound})
			}
		}
	}
	if c.Thorough() {
		for _, i := range []int{0, 3, 6} {
			for _, j := range []int{1, 4, 8} {
				scs = append(scs, c09Scenario{fmt.Sprintf("triple[%s|%s|merge]", menu[i].name, menu[j].name), nil, []int{i, j, mergeOp}, 1})
				scs = append(scs, c09Scenario{fmt.Sprintf("triple[%s|%s|merge2]", menu[i].name, menu[j].name), nil, []int{i, j, mergeOp2}, 1})
			}
		}
	}

	// heavy scenarios (those containing the merge) first, then round-robin over the workers: every
	// scenario is explored completely by ONE worker, so that the run-time fixpoint of scheduling
	// points (written locations, objects seen from two threads) is computed consistently. In the
	// thorough tier the top bound of the merge scenarios is additionally partitioned by subtree.
	sort.SliceStable(scs, func(i, j int) bool { return scWeight(scs[i], mergeOp, writeOp) > scWeight(scs[j], mergeOp, writeOp) })
	if c.Thorough() {
		// thorough: everything the quick tier covers first (light scenarios), the partitioned
		// bound-2 merge scenarios last, as far as the budget reaches
		sort.SliceStable(scs, func(i, j int) bool {
			hi := scWeight(scs[i], mergeOp, writeOp) >= 10 && scs[i].bound >= 2
			hj := scWeight(scs[j], mergeOp, writeOp) >= 10 && scs[j].bound >= 2
			return !hi && hj
		})
	}
	for si, sc := range scs {
		if c.Expired() {
			break
		}
		if c.Replay {
			if strings.HasPrefix(c.ReplayScope, sc.name+"|") {
				runScenario(c, sc, menu, solo, fresh, finalOps, false)
			}
			continue
		}
		heavy := c.Thorough() && scWeight(sc, mergeOp, writeOp) >= 10 && sc.bound >= 2
		if heavy {
			runScenario(c, sc, menu, solo, fresh, finalOps, true)
		} else if si%c.NShards == c.Shard {
			runScenario(c, sc, menu, solo, fresh, finalOps, false)
		}
	}
	if !c.Replay || strings.HasPrefix(c.ReplayScope, "BIG") {
		c09Big(c, len(scs))
	}
	if !c.Replay || strings.HasPrefix(c.ReplayScope, "NEST") {
		nestingSweep(c, menu, solo, fresh)
	}
	c.Add("scenarios", int64(len(scs)))
}

func cfgJSON() string {
	type cj struct{ Hot, Written, Promoted []string }
	var j cj
	for k := range rtCfg.HotSites {
		j.Hot = append(j.Hot, k)
	}
	for k := range rtCfg.Written {
		j.Written = append(j.Written, k)
	}
	for k := range rtCfg.Promoted {
		j.Promoted = append(j.Promoted, k)
	}
	sort.Strings(j.Hot)
	sort.Strings(j.Written)
	sort.Strings(j.Promoted)
	b, _ := json.Marshal(j)
	return string(b)
}

func loadCfgJSON(s string) {
	var j struct{ Hot, Written, Promoted []string }
	if json.Unmarshal([]byte(s), &j) != nil {
		return
	}
	for _, k := range j.Hot {
		rtCfg.HotSites[k] = true
	}
	for _, k := range j.Written {
		rtCfg.Written[k] = true
	}
	for _, k := range j.Promoted {
		rtCfg.Promoted[k] = true
	}
}

func parseSchedule(s string) []int {
	var out []int
	for _, p := range strings.Split(s, ",") {
		if p == "" {
			continue
		}
		n, _ := strconv.Atoi(p)
		out = append(out, n)
	}
	return out
}

func scheduleString(ch []int) string {
	// trailing zeros are the default choice: drop them
	n := len(ch)
	for n > 0 && ch[n-1] == 0 {
		n--
	}
	var p []string
	for _, x := range ch[:n] {
		p = append(p, strconv.Itoa(x))
	}
	return strings.Join(p, ",")
}

func scWeight(sc c09Scenario, mergeOp, writeOp int) int {
	w := 1
	for _, t := range sc.threads {
		if t >= mergeOp {
			w += 10
		}
		if t == writeOp {
			w += 2
		}
	}
	return w * (sc.bound + 1)
}

// runScenario explores one scenario. partitionTop: every worker explores the bounds below the top
// one completely (identical, deterministic fixpoint) and only the top bound is split by subtree.
func runScenario(c *explore.Ctx, sc c09Scenario, menu []c09Op, solo []string, fresh func() segment.Segment, finalOps []int, partitionTop bool) {
	c.Begin(sc.name+"|", 0) // in-flight marker: a dying worker names the scenario (replays its default schedule)
	var seg segment.Segment
	got := make([]string, len(sc.threads))
	mk := func() []func() {
		seg = fresh()
		for _, w := range sc.warm {
			menu[w].run(seg)
		}
		bodies := make([]func(), len(sc.threads))
		for ti, oi := range sc.threads {
			ti, oi := ti, oi
			got[ti] = "(did not finish)"
			bodies[ti] = func() { got[ti] = menu[oi].run(seg) }
		}
		return bodies
	}
	check := func(x *verifrt.Sched) {
		cfgAtRun := cfgJSON() // the scheduling points this execution ran with (before merging discoveries)
		for s := range x.NewHot {
			if !rtCfg.HotSites[s] {
				rtCfg.HotSites[s] = true
				c.Count("sites_promoted_to_scheduling_points")
			}
		}
		for k := range x.NewPromoted {
			if !rtCfg.Promoted[k] {
				rtCfg.Promoted[k] = true
				c.R.Notes = append(c.R.Notes, "type promoted to shared (object seen from two threads): "+k)
			}
		}
		for k := range x.NewWritten {
			if !rtCfg.Written[k] {
				rtCfg.Written[k] = true
				c.R.Notes = append(c.R.Notes, "written shared location: "+k)
			}
		}
		if x.Unowned {
			return
		}
		c.Eval()
		c.R.Distinct++
		c.R.Transitions += int64(len(x.Points))
		if x.Preemptions() > 0 {
			c.Nontrivial()
		}
		sched := scheduleString(x.Choices())
		scope := sc.name + "|" + sched
		c.Sample(c.R.Evaluations, func() string { return fmt.Sprintf("%s schedule=[%s] points=%d", sc.name, sched, len(x.Points)) })
		trace := func() string {
			t := x.Trace
			if len(t) > 60 {
				t = append(append([]string{}, t[:30]...), append([]string{"..."}, t[len(t)-30:]...)...)
			}
			return fmt.Sprintf("scenario %s; schedule (choice per scheduling point, trailing defaults omitted) [%s]; interleaving: %s", sc.name, sched, strings.Join(t, " "))
		}
		for _, p := range x.Panics() {
			c.ViolateX(scope, 0, fmt.Sprintf("C09/panic/%s", menu[sc.threads[p.Tid]].name), fmt.Sprintf("T%d (%s) panicked at %s: %v", p.Tid, menu[sc.threads[p.Tid]].name, p.Site, p.Val), trace(), cfgAtRun)
			return
		}
		if x.Deadlock != "" {
			c.ViolateX(scope, 0, "C09/deadlock", x.Deadlock, trace(), cfgAtRun)
			return
		}
		for ti, oi := range sc.threads {
			if got[ti] != solo[oi] {
				c.ViolateX(scope, 0, "C09/solo-inequivalence/"+opKind(menu[oi].name), fmt.Sprintf("T%d %s observed %.300q, alone it observes %.300q", ti, menu[oi].name, got[ti], solo[oi]), trace(), cfgAtRun)
				return
			}
		}
		for _, r := range x.DistinctRaces() {
			c.ViolateX(scope, 0, "C09/race/"+r.Key, "unsynchronised access (no happens-before order): "+r.String(), trace(), cfgAtRun)
			return
		}
		for _, fo := range finalOps {
			if r := guardStr(func() string { return menu[fo].run(seg) }); r != solo[fo] {
				c.ViolateX(scope, 0, "C09/segment-changed", fmt.Sprintf("after the threads finished %s answers %.200q instead of %.200q", menu[fo].name, r, solo[fo]), trace(), cfgAtRun)
				return
			}
		}
	}
	if c.Replay {
		sched := parseSchedule(c.ReplayScope[len(sc.name)+1:])
		loadCfgJSON(c.ReplayExtra) // the scheduling points of the recorded execution
		x := verifrt.Run(mk(), sched, rtCfg)
		if c.Verbose {
			fmt.Printf("replaying %s\n  interleaving: %s\n", c.ReplayScope, strings.Join(x.Trace, " "))
		}
		check(x)
		return
	}
	// determinism: the default schedule twice
	{
		a := verifrt.Run(mk(), nil, rtCfg)
		ga := append([]string{}, got...)
		b := verifrt.Run(mk(), nil, rtCfg)
		if strings.Join(a.Trace, " ") != strings.Join(b.Trace, " ") || strings.Join(ga, "|") != strings.Join(got, "|") {
			c.R.Error = "nondeterminism: replaying the default schedule of " + sc.name + " gave a different trace"
			return
		}
	}
	t0 := time.Now()
	cls := "pair"
	if len(sc.threads) == 3 {
		cls = "triple"
	}
	for _, oi := range sc.threads {
		if strings.HasPrefix(menu[oi].name, "merge") || strings.HasPrefix(menu[oi].name, "writeTo") {
			cls += "+" + opKind(menu[oi].name)
		}
	}
	e0 := c.R.Evaluations
	defer func() {
		c.Add("ms_"+cls, time.Since(t0).Milliseconds())
		c.Add("execs_"+cls, c.R.Evaluations-e0)
	}()
	owner := !partitionTop || c.Shard == 0
	for bound := 0; bound <= sc.bound; bound++ {
		hotBefore := len(rtCfg.HotSites) + len(rtCfg.Written) + len(rtCfg.Promoted)
		top := partitionTop && bound == sc.bound
		opts := verifrt.ExploreOpts{Bound: bound, Cfg: rtCfg, Expired: c.Expired}
		if top {
			opts.Owns = func(i int) bool {
				if i < 0 {
					return c.Shard == 0
				}
				return i%c.NShards == c.Shard
			}
		}
		counting := owner || top
		res := verifrt.Explore(mk, opts, func(x *verifrt.Sched) {
			if !counting {
				x.Unowned = true // lower bounds of a partitioned scenario: evaluated by shard 0 only
			}
			check(x)
		})
		if res.Capped {
			c.R.Capped = "deadline reached inside scenario " + sc.name
			return
		}
		if len(rtCfg.HotSites)+len(rtCfg.Written)+len(rtCfg.Promoted) != hotBefore {
			if top {
				c.R.Capped = "new scheduling points discovered while exploring the partitioned top bound of " + sc.name
				return
			}
			bound-- // new scheduling points were discovered: explore this bound again (fixpoint)
			continue
		}
		if bound == sc.bound && owner {
			c.R.Counters[fmt.Sprintf("scenarios_completed_bound_%d", bound)]++
		}
	}
	c.R.States++
}

// nestingSweep: every menu operation nested inside every callback of a stored-field / doc-value visit.
func nestingSweep(c *explore.Ctx, menu []c09Op, solo []string, fresh func() segment.Segment) {
	type outerT struct {
		name string
		run  func(seg segment.Segment, at int, inner func()) string
	}
	var outers []outerT
	for _, n := range []uint64{0, 1, 129} {
		n := n
		outers = append(outers, outerT{fmt.Sprintf("stored(%d)", n), func(seg segment.Segment, at int, inner func()) string {
			var b strings.Builder
			k := 0
			err := seg.VisitStoredFields(n, func(f string, v []byte) bool {
				if k == at {
					inner()
				}
				k++
				fmt.Fprintf(&b, "%s=%s;", f, v)
				return true
			})
			if err != nil {
				b.WriteString("ERR " + err.Error())
			}
			return b.String()
		}})
	}
	outers = append(outers, outerT{"docvalues(0)", func(seg segment.Segment, at int, inner func()) string {
		r, err := seg.DocumentValueReader([]string{"b"})
		if err != nil {
			return "ERR " + err.Error()
		}
		var b strings.Builder
		k := 0
		for _, d := range []uint64{0, 2} {
			err = r.VisitDocumentValues(d, func(f string, t []byte) {
				if k == at {
					inner()
				}
				k++
				fmt.Fprintf(&b, "%d:%s=%s;", d, f, t)
			})
			if err != nil {
				return "ERR " + err.Error()
			}
		}
		return b.String()
	}})
	// the pools are deterministic (LIFO) here, so that an object handed out twice is handed out twice
	// on every run; variant 1 makes an out-of-range visit first (it also takes a context from the pool)
	verifrt.DetPools = true
	verifrt.SingleThread = true // a lock held across a visitor callback is a self-deadlock: reported at once
	defer func() { verifrt.DetPools = false; verifrt.SingleThread = false; verifrt.ResetPools() }()
	var idx int64
	for _, o := range outers {
		verifrt.ResetPools()
		want := guardStr(func() string { return o.run(fresh(), -1, func() {}) })
		for at := 0; at < 3; at++ {
			for ii, in := range menu {
				for variant := 0; variant < 2; variant++ {
					my := idx
					idx++
					scope := "NEST"
					if !c.MineIdx(scope, my) {
						continue
					}
					c.Eval()
					c.Nontrivial()
					seg := fresh()
					verifrt.ResetPools()
					if variant == 1 {
						seg.VisitStoredFields(1<<20, func(string, []byte) bool { return true })
					}
					var innerGot string
					ran := false
					got := guardStr(func() string {
						return o.run(seg, at, func() { ran = true; innerGot = in.run(seg) })
					})
					if !ran {
						continue
					}
					cas := fmt.Sprintf("NEST #%d: %s with %s called from inside its callback #%d (variant %d: 1 = after an out-of-range visit)", my, o.name, in.name, at, variant)
					c.Sample(my, func() string { return cas })
					if got != want {
						c.Violate(scope, my, "C09/nesting/outer-wrong/"+opKind(o.name), fmt.Sprintf("outer visit delivered %.300q, without nesting %.300q", got, want), cas)
						continue
					}
					if innerGot != solo[ii] {
						c.Violate(scope, my, "C09/nesting/inner-wrong/"+opKind(in.name), fmt.Sprintf("inner %s observed %.300q, alone %.300q", in.name, innerGot, solo[ii]), cas)
					}
				}
			}
		}
	}
}

var _ = sort.Strings
