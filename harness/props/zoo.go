package props

import (
	"fmt"
	"sort"

	"github.com/RoaringBitmap/roaring"
	segment "github.com/blugelabs/bluge_segment_api"

	"verifharness/explore"
	"verifharness/gen"
	"verifharness/model"
	"verifharness/obs"
)

// The ZOO: one fixed list of segments of unusual make - extreme values, three-input and depth-2
// merges, merges in which one term meets every combination of posting payloads, twins, wide field
// tables - that EVERY read-side property runs its own oracle over (scope "ZOO"), so that a shape
// one property's generators contain is not missing from another's. (Most scope gaps the seeded
// changes exposed were of exactly that kind.) Every member is built under the C16 contract
// (reported length == sum of term frequencies).

type zooSeg struct {
	name  string
	seg   segment.Segment
	want  *model.LSeg
	bytes []byte // persisted image
	heavy bool   // megabytes of values or tens of thousands of documents
	mode  uint32 // chunk mode the segment was written with
}

type zooMaker struct {
	name  string
	heavy bool
	make  func() (segs []segment.Segment, lsegs []*model.LSeg, drops [][]uint32, merged bool, err error)
	// first: the member's (first) input batch, for the properties about BUILT segments
	first func() []model.Doc
	mode  uint32 // chunk mode of the final merge (0: the adaptive mode 1025)
	// for members that are one merge of freshly built inputs: the inputs, so that the merge
	// properties (C02/C03) can run the same merge under their own oracle
	batches []func() []model.Doc
	drops   [][]uint32
	form    int
}

func zooBuilt(name string, heavy bool, batch func() []model.Doc) zooMaker {
	return zooMaker{name: name, heavy: heavy, first: batch, make: func() ([]segment.Segment, []*model.LSeg, [][]uint32, bool, error) {
		b := batch()
		model.SumFreqLen(b)
		s, err := build(b, 1025)
		if err != nil {
			return nil, nil, nil, false, err
		}
		return []segment.Segment{s}, []*model.LSeg{model.Build(b)}, nil, false, nil
	}}
}

// zooMerged: the listed batches are built (each optionally self-merged first: form 2) and merged.
func zooMerged(name string, heavy bool, form int, drops [][]uint32, batches ...func() []model.Doc) zooMaker {
	return zooMergedM(name, heavy, form, 1025, drops, batches...)
}

// zooMergedM: inputs built, and the merge written, under the given chunk mode.
func zooMergedM(name string, heavy bool, form int, mode uint32, drops [][]uint32, batches ...func() []model.Doc) zooMaker {
	return zooMaker{name: name, heavy: heavy, first: batches[0], mode: mode, batches: batches, drops: drops, form: form, make: func() ([]segment.Segment, []*model.LSeg, [][]uint32, bool, error) {
		var segs []segment.Segment
		var lsegs []*model.LSeg
		for i, bf := range batches {
			b := bf()
			model.SumFreqLen(b)
			s, err := build(b, mode)
			if err != nil {
				return nil, nil, nil, true, fmt.Errorf("input %d: %w", i, err)
			}
			ls := model.Build(b)
			if form != 0 && len(b) > 0 {
				s, ls, err = inputForm(s, ls, form, mode)
				if err != nil {
					return nil, nil, nil, true, fmt.Errorf("input form %d: %w", i, err)
				}
			}
			segs = append(segs, s)
			lsegs = append(lsegs, ls)
		}
		return segs, lsegs, drops, true, nil
	}}
}

func zooMakers() []zooMaker {
	var out []zooMaker
	partner := func() []model.Doc { return []model.Doc{gen.MixDoc(2, "p", 0), gen.MixDoc(1, "p", 1)} }
	mix := func(tag string, kinds ...int) func() []model.Doc {
		return func() []model.Doc {
			var b []model.Doc
			for i, k := range kinds {
				b = append(b, gen.MixDoc(k, tag, i))
			}
			return b
		}
	}
	// 1. extreme values: built, and merged with a partner (one deletion)
	for i := range gen.Extremes() {
		i := i
		e := gen.Extremes()[i]
		get := func() []model.Doc { return gen.Extremes()[i].Batch }
		out = append(out, zooBuilt("extreme-"+e.Name, e.Heavy, get))
		out = append(out, zooMerged("extreme-"+e.Name+"+partner", e.Heavy, 0, [][]uint32{{1}, nil}, get, partner))
	}
	// 2. three inputs over the kinds {2, 1, 4}: enumerator ties, 1-hit candidates, composite fields
	ks := []int{2, 1, 4}
	for a := 0; a < 3; a++ {
		for b := 0; b < 3; b++ {
			for d := 0; d < 3; d++ {
				var drops [][]uint32
				if (a+b+d)%2 == 1 {
					drops = [][]uint32{nil, {0}, nil}
				}
				out = append(out, zooMerged(fmt.Sprintf("three[%d,%d,%d]", ks[a], ks[b], ks[d]), false, 0, drops,
					mix("s0", ks[a], 11), mix("s1", ks[b], 2), mix("s2", ks[d])))
			}
		}
	}
	// 3. one term meeting every pair of posting payloads, inputs previously merged (1-hit inputs)
	for k0 := 0; k0 < 5; k0++ {
		for k1 := 0; k1 < 5; k1++ {
			out = append(out, zooMerged(fmt.Sprintf("term-payloads[%d,%d]", k0, k1), false, 2, nil,
				mix("s0", gen.MergeKinds[gen.TermKindBase+k0]), mix("s1", gen.MergeKinds[gen.TermKindBase+k1], gen.MergeKinds[gen.TermKindBase+(k0+k1)%5])))
		}
	}
	// 4. twins: two segments of the same shape and byte ranges, other content
	out = append(out, zooMerged("twins", false, 0, nil, mix("a", 2, 1, 4, 2, 9, 1), mix("z", 2, 1, 4, 2, 9, 1)))
	// 5. depth 2: merge(merge(a,b) with a deletion, c), and a merge whose middle input lost everything
	out = append(out, zooMaker{name: "depth2", make: func() ([]segment.Segment, []*model.LSeg, [][]uint32, bool, error) {
		var in []segment.Segment
		var ls []*model.LSeg
		for i, f := range []func() []model.Doc{mix("a", 2, 1, 3), mix("b", 4, 1, 7)} {
			b := f()
			model.SumFreqLen(b)
			s, err := build(b, 1025)
			if err != nil {
				return nil, nil, nil, true, fmt.Errorf("input %d: %w", i, err)
			}
			in, ls = append(in, s), append(ls, model.Build(b))
		}
		mb, _, _, err := merge(in, []*roaring.Bitmap{bitmapOf(1), nil}, 1025)
		if err != nil {
			return nil, nil, nil, true, err
		}
		inner, err := loadMem(mb)
		if err != nil {
			return nil, nil, nil, true, err
		}
		innerL, _ := model.Merge(ls, []map[uint64]bool{{1: true}, nil})
		cb := mix("c", 1, 2)()
		model.SumFreqLen(cb)
		cs, err := build(cb, 1025)
		if err != nil {
			return nil, nil, nil, true, err
		}
		return []segment.Segment{inner, cs}, []*model.LSeg{innerL, model.Build(cb)}, [][]uint32{{0}, nil}, true, nil
	}})
	out = append(out, zooMerged("middle-all-dropped", false, 0, [][]uint32{nil, {0, 1}, nil}, mix("a", 2, 1), mix("b", 5, 9), mix("c", 1, 4)))
	// 5b. three inputs whose FIRST and LAST have the same field list while the middle one differs
	// (no deletions: whether an input is block-copied must be decided per input)
	sf := func(tag string, names ...string) func() []model.Doc {
		return func() []model.Doc {
			var b []model.Doc
			for i := 0; i < 2; i++ {
				d := model.Doc{gen.IDField(tag, i)}
				for _, n := range names {
					d = append(d, model.Field{N: n, Len: 1, St: true, Val: []byte(fmt.Sprintf("%s-of-%s%d", n, tag, i)), DV: n == "beta", Terms: []model.Term{{T: n + "-term", Freq: 1}}})
				}
				b = append(b, d)
			}
			return b
		}
	}
	out = append(out, zooMerged("first-last-same-middle-differs", false, 0, nil, sf("a", "alpha"), sf("b", "beta"), sf("c", "alpha")))
	out = append(out, zooMerged("first-last-same-middle-subset", false, 0, nil, sf("a", "alpha", "beta"), sf("b", "beta"), sf("c", "alpha", "beta")))
	out = append(out, zooMerged("middle-same-outer-differ", false, 0, nil, sf("a", "alpha"), sf("b", "beta"), sf("c", "beta"), sf("d", "gamma")))
	// 5c. norms with unusual float32 bit patterns (varints of 5 bytes; bit 30 set; denormals)
	for _, nm := range []int{1, 3, 4, 5, 8} {
		nm := nm
		withNorms := func(mk zooMaker) zooMaker {
			inner := mk.make
			mk.name = fmt.Sprintf("%s-norms%d", mk.name, nm)
			mk.make = func() (sg []segment.Segment, ls []*model.LSeg, dr [][]uint32, merged bool, err error) {
				model.WithNormMode(nm, func() { sg, ls, dr, merged, err = inner() })
				return
			}
			return mk
		}
		out = append(out, withNorms(zooBuilt("mix", false, mix("n", 2, 1, 4, 11, 3, 2, 2))))
		out = append(out, withNorms(zooMerged("mix+partner", false, 0, [][]uint32{{1}, nil}, mix("n", 2, 1, 4, 11, 3), partner)))
	}
	// 6. wide field tables
	wide := func(nf int, long bool) func() []model.Doc {
		return func() []model.Doc {
			var b []model.Doc
			for d := 0; d < 2; d++ {
				doc := model.Doc{gen.IDField("w", d)}
				for f := 0; f < nf; f++ {
					name := fmt.Sprintf("f%03d", f)
					if long && f%50 == 0 {
						for k := 0; k < 20; k++ {
							name += "-long-field-name"
						}
					}
					if (f+d)%3 == 0 {
						continue
					}
					tm := model.Term{T: fmt.Sprintf("t%d", f%7), Freq: 1 + f%3}
					if f%7 != 0 {
						// locations in fields with high ids; every fifth names a following field
						tm.Locs = []model.Loc{{P: f + 1, S: f, E: f + 2}}
						if f%5 == 0 {
							o := f + 1 // the next field this very document carries (the contract: a location names a field of the batch - also of the batch of survivors)
							if (o+d)%3 == 0 || o >= nf {
								o++
							}
							if o < nf && !(long && o%50 == 0) {
								tm.Locs = append(tm.Locs, model.Loc{F: fmt.Sprintf("f%03d", o), P: 1, S: 0, E: 1})
							}
						}
						if tm.Freq < len(tm.Locs) {
							tm.Freq = len(tm.Locs) // input contract: freq >= number of locations
						}
					}
					doc = append(doc, model.Field{N: name, Len: 1 + f%3, Terms: []model.Term{tm}, DV: f%10 == 0, St: f%25 == 0, Val: []byte(name)})
					if f%40 == 5 {
						// a second and third instance of the same field in this document (field ids far above 64)
						doc = append(doc, model.Field{N: name, Len: 1, Terms: []model.Term{{T: "again", Freq: 1}}, DV: f%10 == 0}, model.Field{N: name, Len: 1, Terms: []model.Term{{T: fmt.Sprintf("t%d", f%7), Freq: 1}}, DV: f%10 == 0})
					}
				}
				b = append(b, doc)
			}
			return b
		}
	}
	// every field id repeated within one document somewhere (per-document "seen" sets indexed by field id)
	wideRepeat := func(nf int) func() []model.Doc {
		return func() []model.Doc {
			var b []model.Doc
			for d := 0; d < 3; d++ {
				doc := model.Doc{gen.IDField("r", d)}
				for f := 0; f < nf; f++ {
					name := fmt.Sprintf("f%03d", f)
					doc = append(doc, model.Field{N: name, Len: 1, Terms: []model.Term{{T: fmt.Sprintf("t%d", f%5), Freq: 1}}, DV: f%16 == 0})
					if f%2 == d {
						doc = append(doc, model.Field{N: name, Len: 2, Terms: []model.Term{{T: "again", Freq: 1}, {T: fmt.Sprintf("t%d", f%5), Freq: 1}}, DV: f%16 == 0})
					}
					if f%64 == 63 && d == 2 {
						doc = append(doc, model.Field{N: name, Len: 1, Terms: []model.Term{{T: "third", Freq: 1}}, DV: f%16 == 0}, model.Field{N: name, Len: 1, Terms: []model.Term{{T: "third", Freq: 1}}, DV: f%16 == 0})
					}
				}
				b = append(b, doc)
			}
			return b
		}
	}
	out = append(out, zooBuilt("wide-repeat-140", false, wideRepeat(140)))
	out = append(out, zooMerged("wide-repeat-70+partner", false, 0, [][]uint32{{1}, nil}, wideRepeat(70), partner))
	out = append(out, zooBuilt("wide-300", false, wide(300, true)))
	out = append(out, zooMerged("wide-140+partner", false, 0, [][]uint32{{0}, nil}, wide(140, false), partner))
	out = append(out, zooMerged("wide-16400+partner", true, 0, [][]uint32{nil, {1}}, wide(16400, false), partner))
	// 6b. SIZE SWEEPS: one quantity at a time walked across the places where encodings change width
	// (varint lengths at 2^7, 2^14, 2^21, 2^28; one-byte counters at 255/256; 128-document blocks and
	// 1024-document chunks; 2^16) - each value and both neighbours
	around := func(vs ...int) []int {
		var out []int
		seen := map[int]bool{}
		for _, v := range vs {
			for _, x := range []int{v - 1, v, v + 1} {
				if x >= 0 && !seen[x] {
					seen[x] = true
					out = append(out, x)
				}
			}
		}
		return out
	}
	fill := func(n, salt int) []byte {
		b := make([]byte, n)
		for i := range b {
			b[i] = byte('a' + (i*7+salt)%26)
		}
		return b
	}
	// (a) stored value length; (b) term length (postings term and doc-value term, with a neighbour
	// sharing all but the last byte)
	for _, L := range around(1, 64, 128, 256, 4096, 16384, 65536) {
		L := L
		out = append(out, zooMerged(fmt.Sprintf("size-value-%d", L), false, 0, [][]uint32{{1}, nil}, func() []model.Doc {
			return []model.Doc{
				{gen.IDField("v", 0), {N: "a", Len: 1, St: true, Val: fill(L, 1), Terms: []model.Term{{T: "x", Freq: 1}}}},
				{gen.IDField("v", 1), {N: "a", Len: 1, St: true, Val: []byte("dropped"), Terms: []model.Term{{T: "x", Freq: 1}}}},
				{gen.IDField("v", 2), {N: "a", Len: 1, St: true, Val: fill(L, 2), Terms: []model.Term{{T: "y", Freq: 1}}}, {N: "z", St: true, Val: fill(L/2, 3)}},
			}
		}, partner))
		if L >= 1 {
			out = append(out, zooMerged(fmt.Sprintf("size-term-%d", L), false, 0, [][]uint32{nil, {0}}, func() []model.Doc {
				t := string(fill(L, 5))
				t2 := t[:L-1] + "~"
				return []model.Doc{
					{gen.IDField("t", 0), {N: "a", Len: 2, Terms: []model.Term{{T: t, Freq: 1, Locs: []model.Loc{{P: 1, S: 0, E: L}}}, {T: t2, Freq: 1}}}, {N: "b", Len: 2, DV: true, Terms: []model.Term{{T: t, Freq: 1}, {T: t2, Freq: 1}}}},
					{gen.IDField("t", 1), {N: "a", Len: 1, Terms: []model.Term{{T: t2, Freq: 1}}}, {N: "b", Len: 1, DV: true, Terms: []model.Term{{T: t, Freq: 1}}}},
				}
			}, partner))
		}
	}
	// (c) number of fields; (d) number of doc-value terms / stored values / instances in ONE document
	for _, F := range around(2, 128, 256) {
		F := F
		if F < 1 {
			continue
		}
		out = append(out, zooMerged(fmt.Sprintf("size-fields-%d", F), false, 0, [][]uint32{{0}, nil}, func() []model.Doc {
			var b []model.Doc
			for d := 0; d < 3; d++ {
				doc := model.Doc{gen.IDField("f", d)}
				for f := 0; f < F; f++ {
					if (f+d)%2 == 0 || f == F-1 {
						doc = append(doc, model.Field{N: fmt.Sprintf("g%03d", f), Len: 1, DV: f%3 == 0, St: f%4 == 0, Val: []byte{byte(f), byte(d)}, Terms: []model.Term{{T: fmt.Sprintf("t%d", (f+d)%3), Freq: 1}}})
					}
				}
				b = append(b, doc)
			}
			return b
		}, partner))
		out = append(out, zooMerged(fmt.Sprintf("size-perdoc-%d", F), false, 0, [][]uint32{nil, {1}}, func() []model.Doc {
			var ts []model.Term
			doc := model.Doc{gen.IDField("p", 0)}
			for k := 0; k < F; k++ {
				ts = append(ts, model.Term{T: fmt.Sprintf("dv%04d", k), Freq: 1})
				doc = append(doc, model.Field{N: "s", St: true, Val: []byte(fmt.Sprintf("value-%d", k))})
			}
			doc = append(doc, model.Field{N: "b", Len: F, DV: true, Terms: ts})
			return []model.Doc{doc, {gen.IDField("p", 1), {N: "b", Len: 1, DV: true, Terms: ts[:1]}, {N: "s", St: true, Val: []byte("one")}}}
		}, partner))
	}
	// (e) number of documents (stored blocks of 128, doc-value chunks of 1024, 2^14)
	for _, N := range around(128, 256, 1024, 2048, 4096, 8192, 16384) {
		N := N
		out = append(out, zooMerged(fmt.Sprintf("size-docs-%d", N), N > 5000, 0, [][]uint32{{0}, nil}, func() []model.Doc {
			b := make([]model.Doc, N)
			for i := range b {
				b[i] = model.Doc{gen.IDField("n", i), {N: "a", Len: 1, St: i%3 == 0, Val: []byte(fmt.Sprintf("s%d", i)), Terms: []model.Term{{T: "x", Freq: 1 + i%2, Locs: []model.Loc{{P: 1, S: i % 300, E: i%300 + 1}}}}}}
				if i%2 == 1 || i == N-1 {
					b[i] = append(b[i], model.Field{N: "b", Len: 1, DV: true, Terms: []model.Term{{T: fmt.Sprintf("t%d", i%5), Freq: 1}}})
				}
			}
			return b
		}, partner))
	}
	// (e2) the same batches under the fixed chunk modes 1, 2 and 3: the number of CHUNKS of a postings
	// list crosses 127/128 and 255/256 (chunk tables, one-byte counts)
	for _, m := range []uint32{1, 2, 3} {
		for _, N := range []int{127, 128, 129, 255, 256, 257, 383, 384, 385, 511, 513, 768} {
			N, m := N, m
			out = append(out, zooMergedM(fmt.Sprintf("size-chunks-mode%d-docs-%d", m, N), false, 0, m, [][]uint32{{0}, nil}, func() []model.Doc {
				b := make([]model.Doc, N)
				for i := range b {
					b[i] = model.Doc{gen.IDField("c", i), {N: "a", Len: 1, Terms: []model.Term{{T: "x", Freq: 1 + i%2, Locs: []model.Loc{{P: 1, S: i % 300, E: i%300 + 1}}}}}}
					if i%2 == 1 || i == N-1 {
						b[i] = append(b[i], model.Field{N: "a", Len: 1, Terms: []model.Term{{T: "y", Freq: 1}}})
					}
				}
				return b
			}, partner))
		}
	}
	// (f) frequencies and location numbers at varint width changes
	for _, V := range around(128, 16384, 1<<21, 1<<28, 1<<31, 1<<32, 1<<35) {
		V := V
		if V < 1 {
			continue
		}
		out = append(out, zooMerged(fmt.Sprintf("size-number-%d", V), false, 0, [][]uint32{nil, {0}}, func() []model.Doc {
			return []model.Doc{
				{gen.IDField("q", 0), {N: "a", Len: 2, Terms: []model.Term{{T: "x", Freq: V}, {T: "y", Freq: 2, Locs: []model.Loc{{P: V, S: V - 1, E: V}, {P: 1, S: V, E: V + 1}}}}}},
				{gen.IDField("q", 1), {N: "a", Len: 1, Terms: []model.Term{{T: "x", Freq: 1}, {T: "y", Freq: 1}}}},
				{gen.IDField("q", 2), {N: "a", Len: 1, Terms: []model.Term{{T: "x", Freq: V + 1}}}},
			}
		}, partner))
	}
	// (g) one document per combination of the WIDTHS of the two length prefixes of a stored record
	// (meta: 1-3 bytes, i.e. up to ~25 / ~3000 / 5000 values; data: 1-4 bytes, i.e. < 128 B, < 16 KiB,
	// < 2 MiB, >= 2 MiB), each between two ordinary documents
	for _, form := range []int{0, 1} {
		form := form
		mkw := func() []model.Doc {
			var b []model.Doc
			n := 0
			for _, nv := range []int{1, 60, 5000} {
				for _, total := range []int{100, 9000, 300000, 2200000} {
					sz := total / nv
					doc := model.Doc{gen.IDField("w", n)}
					for k := 0; k < nv; k++ {
						v := make([]byte, sz)
						for i := range v {
							v[i] = byte('a' + (i+k+n)%23)
						}
						doc = append(doc, model.Field{N: []string{"s", "a", "u"}[k%3], St: true, Val: v})
					}
					b = append(b, doc, model.Doc{gen.IDField("w", n+1), {N: "a", Len: 1, St: true, Val: []byte("plain"), Terms: []model.Term{{T: "x", Freq: 1}}}})
					n += 2
				}
			}
			return b
		}
		if form == 0 {
			out = append(out, zooBuilt("stored-prefix-widths", true, mkw))
		} else {
			out = append(out, zooMerged("stored-prefix-widths-merged", true, 0, [][]uint32{{1}, nil}, mkw, partner))
		}
	}
	// (h) doc-value chunk headers: one entry per combination of the widths of its two numbers - the
	// document number delta (1 byte inside a run; 2 bytes after a gap of >= 128 or for a chunk's first
	// document >= 128; 3 bytes for a chunk's first document >= 16 384) and the end offset delta
	// (< 128 B, < 16 KiB, < 2 MiB, >= 2 MiB of doc-value bytes in that document)
	{
		dvw := func() []model.Doc {
			const n = 19500
			terms := make([]model.Term, 2200)
			for k := range terms {
				t := make([]byte, 1000)
				copy(t, fmt.Sprintf("%06d", k))
				for i := 6; i < len(t); i++ {
					t[i] = byte('a' + (i+k)%17)
				}
				terms[k] = model.Term{T: string(t), Freq: 1}
			}
			sizes := []int{1, 9, 20, 2200} // terms of 1000 bytes
			b := make([]model.Doc, n)
			for i := range b {
				b[i] = model.Doc{gen.IDField("h", i)}
			}
			put := func(d, k int) {
				ts := append([]model.Term{}, terms[:sizes[k%4]]...)
				if k%4 == 0 {
					ts = []model.Term{{T: "short", Freq: 1}}
				}
				b[d] = append(b[d], model.Field{N: "b", Len: len(ts), DV: true, Terms: ts})
			}
			k := 0
			for ch := 0; ch*1024 < n; ch++ {
				base := ch * 1024
				switch {
				case ch >= 16 || ch <= 2: // every size as the chunk's first entry, in-run, and after a gap
					for j, d := range []int{base, base + 1, base + 2, base + 300, base + 301, base + 302, base + 303, base + 600, base + 900} {
						if d < n {
							put(d, ch+j)
						}
					}
				default:
					put(base+ch%3, k)
					put(base+500, k+1)
					k += 2
				}
			}
			return b
		}
		out = append(out, zooBuilt("dv-header-widths", true, dvw))
		out = append(out, zooMerged("dv-header-widths-merged", true, 0, [][]uint32{{1}, nil}, dvw, partner))
	}
	// 7. 66 000 documents (document numbers cross 65 536)
	out = append(out, zooBuilt("huge-66000", true, func() []model.Doc {
		b := gen.Large(66000, 1, 1)
		for j := range b {
			if j%1000 == 0 || (j >= 65534 && j <= 65538) || j == 65999 {
				b[j] = append(gen.Doc{gen.IDField("h", j)}, b[j]...)
				b[j] = append(b[j], model.Field{N: "b", Len: 1, DV: true, St: true, Val: []byte(fmt.Sprintf("stored-%d", j)), Terms: []model.Term{{T: fmt.Sprintf("t%d", j%7), Freq: 1}}})
			}
		}
		return b
	}))
	// 70 000 documents with one term in EVERY document (its bitmap has a completely full container,
	// run-encoded) and one term in every document below 65 536 and in every other one above (a full
	// container next to an array container of 2232 entries: 4.4 KiB serialized)
	out = append(out, zooBuilt("huge-70000-dense", true, func() []model.Doc {
		b := gen.Large(70000, 0, 1)
		for j := range b {
			if j < 65536 || j%2 == 0 {
				b[j] = append(b[j], model.Field{N: "m", Len: 1, Terms: []model.Term{{T: "mixed", Freq: 1}}})
			}
		}
		for _, j := range []int{0, 1, 65535, 65536, 69999} {
			b[j] = append(gen.Doc{gen.IDField("h", j)}, b[j]...)
		}
		return b
	}))
	// (i) every field-name length from 1 to 300 bytes, and around 4 KiB and 64 KiB, in one segment
	{
		fnl := func() []model.Doc {
			var lens []int
			for l := 1; l <= 300; l++ {
				lens = append(lens, l)
			}
			lens = append(lens, 4095, 4096, 4097, 65535, 65536, 65537)
			var b []model.Doc
			for d := 0; d < 3; d++ {
				doc := model.Doc{gen.IDField("n", d)}
				for k, l := range lens {
					if (k+d)%3 == 2 {
						continue
					}
					name := []byte(fmt.Sprintf("n%05d", l))
					for len(name) < l {
						name = append(name, byte('a'+len(name)%26))
					}
					name = name[:l] // short lengths: a prefix of the number (unique up to 6 bytes is not needed below)
					if l < 6 {
						name = []byte("abcdef"[:l-1] + string(rune('A'+l)))
					}
					doc = append(doc, model.Field{N: string(name), Len: 1 + k%3, Terms: []model.Term{{T: fmt.Sprintf("t%d", k%4), Freq: 1 + k%3}}, DV: k%50 == 0, St: k%70 == 0, Val: []byte("v")})
				}
				b = append(b, doc)
			}
			return b
		}
		out = append(out, zooBuilt("field-name-lengths", true, fnl))
		out = append(out, zooMerged("field-name-lengths-merged", true, 0, [][]uint32{{0}, nil}, fnl, partner))
	}
	// (j) a doc-value field whose ENCODED chunk data exceeds 4 MiB (incompressible terms): 1300
	// documents with four 1000-byte terms of pseudo-random bytes each
	{
		dvi := func() []model.Doc {
			x := uint32(77)
			b := make([]model.Doc, 1300)
			for i := range b {
				var ts []model.Term
				for k := 0; k < 4; k++ {
					t := make([]byte, 1000)
					for j := range t {
						x = x*1664525 + 1013904223
						t[j] = byte(x>>24) % 255 // never 0xff (the doc-value term separator)
					}
					copy(t, fmt.Sprintf("%04d-%d-", i, k))
					ts = append(ts, model.Term{T: string(t), Freq: 1})
				}
				b[i] = model.Doc{gen.IDField("i", i), {N: "b", Len: 4, DV: true, Terms: ts}}
			}
			return b
		}
		out = append(out, zooBuilt("dv-incompressible-5mib", true, dvi))
		out = append(out, zooMerged("dv-incompressible-5mib-merged", true, 0, [][]uint32{{1}, nil}, dvi, partner))
	}
	return out
}

// zooEach builds the members this worker owns and hands each to f. withHeavy: include the heavy ones.
func zooEach(c *explore.Ctx, withHeavy bool, f func(idx int64, z *zooSeg)) {
	scope := "ZOO"
	for i, mk := range zooMakers() {
		idx := int64(i)
		if mk.heavy && !withHeavy {
			continue
		}
		if !c.MineIdx(scope, idx) || c.Expired() {
			continue
		}
		c.Eval()
		c.Nontrivial()
		segs, lsegs, drops, merged, err := mk.make()
		if err != nil {
			c.Violate(scope, idx, sigOf(c.Prop, "zoo-inputs", "error: "+err.Error()), err.Error(), mk.name)
			continue
		}
		z := &zooSeg{name: mk.name, heavy: mk.heavy, mode: 1025}
		if !merged {
			z.seg, z.want = segs[0], lsegs[0]
			b, _, err := persist(z.seg)
			if err != nil {
				c.Violate(scope, idx, sigOf(c.Prop, "zoo-persist", "error: "+err.Error()), err.Error(), mk.name)
				continue
			}
			z.bytes = b
		} else {
			bms := make([]*roaring.Bitmap, len(segs))
			dsets := make([]map[uint64]bool, len(segs))
			for k := range segs {
				if k < len(drops) && drops[k] != nil {
					bms[k] = bitmapOf(drops[k]...)
					dsets[k] = map[uint64]bool{}
					for _, d := range drops[k] {
						dsets[k][uint64(d)] = true
					}
				}
			}
			z.mode = 1025
			if mk.mode != 0 {
				z.mode = mk.mode
			}
			mb, _, _, err := merge(segs, bms, z.mode)
			if err != nil {
				c.Violate(scope, idx, sigOf(c.Prop, "zoo-merge", "error: "+err.Error()), err.Error(), mk.name)
				continue
			}
			l, err := loadMem(mb)
			if err != nil {
				c.Violate(scope, idx, sigOf(c.Prop, "zoo-load", "error: "+err.Error()), err.Error(), mk.name)
				continue
			}
			z.seg, z.bytes = l, mb
			z.want, _ = model.Merge(lsegs, dsets)
		}
		c.Sample(idx, func() string { return "ZOO " + mk.name })
		f(idx, z)
	}
}

// zooInterestDocs: documents a visiting order is built from.
func zooInterestDocs(n int) []uint64 {
	set := map[uint64]bool{}
	for _, d := range []int{0, 1, 2, n / 2, 127, 128, 129, 1023, 1024, 65535, 65536, n - 2, n - 1} {
		if d >= 0 && d < n {
			set[uint64(d)] = true
		}
	}
	var out []uint64
	for d := range set {
		out = append(out, d)
	}
	sort.Slice(out, func(i, j int) bool { return out[i] < out[j] })
	if len(out) > 6 {
		out = append(out[:3], out[len(out)-3:]...)
	}
	return out
}

// zooPostings: every postings list of the member (at most maxTerms per field) against the model:
// full walk, walk with every second document excluded, fresh iterators advanced with strides 1..3,
// and the same without frequencies/norms/locations (document numbers only).
func zooPostings(c *explore.Ctx, idx int64, z *zooSeg, maxTerms int) {
	exp := obs.Expected(z.want)
	for _, f := range z.want.Fields {
		terms := exp.Dicts[f]
		if len(terms) > maxTerms {
			terms = append(append([]obs.Term{}, terms[:maxTerms/2]...), terms[len(terms)-maxTerms/2:]...)
		}
		var dict segment.Dictionary
		var err error
		if msg := explore.Guard(func() { dict, err = z.seg.Dictionary(f) }); msg != "" || err != nil {
			c.Violate("ZOO", idx, sigOf("C05", "zoo-dictionary", "error: "+errText(msg, err)), errText(msg, err), z.name+" field="+f)
			return
		}
		for _, t := range terms {
			E := t.Postings
			if len(E) > 3000 {
				continue // the long lists belong to LARGE-ITER
			}
			cas := fmt.Sprintf("ZOO %s field=%q term=%q", z.name, f, t.Term)
			bad := ""
			msg := explore.Guard(func() { bad = zooWalks(c, dict, []byte(t.Term), E) })
			if msg != "" {
				bad = msg
			}
			if bad != "" {
				c.Violate("ZOO", idx, sigOf("C05", "zoo", bad), bad, cas)
				return
			}
		}
	}
}

func zooWalks(c *explore.Ctx, dict segment.Dictionary, term []byte, E []obs.Posting) string {
	pl, err := dict.PostingsList(term, nil, nil)
	if err != nil {
		return "error: " + err.Error()
	}
	if pl.Count() != uint64(len(E)) {
		return fmt.Sprintf("count: Count()=%d, the model has %d postings", pl.Count(), len(E))
	}
	for _, flags := range []int{7, 0, 4} {
		strip := func(p obs.Posting) obs.Posting {
			if flags&1 == 0 {
				p.Freq = 0
			}
			if flags&2 == 0 {
				p.Norm = 0
			}
			if flags&4 == 0 {
				p.Locs = nil
			}
			return p
		}
		same := func(got obs.Posting, want obs.Posting) bool {
			w := strip(want)
			// an unrequested component may be delivered anyway (zero or correct)
			if flags&1 == 0 && got.Freq == want.Freq {
				w.Freq = want.Freq
			}
			if flags&2 == 0 && got.Norm == want.Norm {
				w.Norm = want.Norm
			}
			if flags&4 == 0 && fmt.Sprint(got.Locs) == fmt.Sprint(want.Locs) {
				w.Locs = want.Locs
			}
			return fmt.Sprint(got) == fmt.Sprint(w)
		}
		for stride := 0; stride <= 3; stride++ {
			it, err := pl.Iterator(flags&1 != 0, flags&2 != 0, flags&4 != 0, nil)
			if err != nil {
				return "error: " + err.Error()
			}
			k := 0
			for k < len(E) {
				c.R.Transitions++
				var p segment.Posting
				if stride == 0 {
					p, err = it.Next()
				} else {
					p, err = it.Advance(E[k].Doc)
				}
				if err != nil {
					return fmt.Sprintf("error: flags=%03b stride=%d posting #%d: %v", flags, stride, k, err)
				}
				if p == nil {
					return fmt.Sprintf("end: flags=%03b stride=%d: iterator ended before posting #%d of %d", flags, stride, k, len(E))
				}
				if got := obs.CopyPosting(p); !same(got, E[k]) {
					return fmt.Sprintf("posting: flags=%03b stride=%d posting #%d: got %v want %v", flags, stride, k, got, strip(E[k]))
				}
				if stride == 0 {
					k++
				} else {
					k += stride
				}
			}
			if stride == 0 {
				if p, err := it.Next(); p != nil || err != nil {
					return fmt.Sprintf("end: flags=%03b: Next after the last posting returned %v %v", flags, p, err)
				}
			}
		}
	}
	// every second document excluded
	if len(E) >= 2 {
		ex := roaring.New()
		var rest []obs.Posting
		for k, p := range E {
			if k%2 == 0 {
				ex.Add(uint32(p.Doc))
			} else {
				rest = append(rest, p)
			}
		}
		plx, err := dict.PostingsList(term, ex, nil)
		if err != nil {
			return "error: " + err.Error()
		}
		got, err := obs.WalkAll(plx)
		if err != nil {
			return "error: exclusion walk: " + err.Error()
		}
		if fmt.Sprint(got) != fmt.Sprint(rest) {
			return fmt.Sprintf("posting: with every second document excluded: got %d postings %v want %v", len(got), clipP(got), clipP(rest))
		}
		if plx.Count() != uint64(len(rest)) {
			return fmt.Sprintf("count: with exclusion Count()=%d want %d", plx.Count(), len(rest))
		}
	}
	return ""
}

func clipP(p []obs.Posting) []obs.Posting {
	if len(p) > 3 {
		return p[:3]
	}
	return p
}

// zooRelabel gives every violation recorded since mark the address ("ZOO", idx), so that a replay
// re-runs the whole member (oracles written for other scopes number their sub-cases themselves).
func zooRelabel(c *explore.Ctx, mark int, idx int64, name string) {
	for i := mark; i < len(c.R.Violations); i++ {
		c.R.Violations[i].Scope, c.R.Violations[i].Index = "ZOO", idx
		c.R.Violations[i].Case = "ZOO " + name + ": " + c.R.Violations[i].Case
	}
}

// zooStored (C06): every document, then every sequence of <= 3 visits over the documents of interest.
func zooStored(c *explore.Ctx, idx int64, z *zooSeg) {
	cas := "ZOO " + z.name
	if !checkAllDocs(c, "ZOO", idx, z.seg, z.want, "zoo", cas, false) {
		return
	}
	docs := zooInterestDocs(len(z.want.Docs))
	if z.heavy && len(docs) > 4 {
		docs = docs[len(docs)-4:]
	}
	for _, o := range orders(docs, 3) {
		c.R.Transitions += int64(len(o))
		for i, d := range o {
			got, _, err := visitStored(z.seg, d, -1)
			if err != nil || !kvEqual(got, z.want.StoredOf(int(d))) {
				c.Violate("ZOO", idx, "C06/zoo-sequence/wrong/values", fmt.Sprintf("visit #%d of sequence %v (doc %d): err=%v got %d values, want %d", i, o, d, err, len(got), len(z.want.StoredOf(int(d)))), cas)
				return
			}
		}
	}
}

// zooDocValues (C07): one reader on (at most 8 of) the member's fields, every order of <= 3 visits
// over the documents of interest (each also after a warm-up visit).
func zooDocValues(c *explore.Ctx, idx int64, z *zooSeg) {
	fields := append([]string{}, z.want.Fields...)
	if len(fields) > 8 {
		fields = append(fields[:4], fields[len(fields)-4:]...)
	}
	docs := zooInterestDocs(len(z.want.Docs))
	if z.heavy && len(docs) > 4 {
		docs = docs[len(docs)-4:]
	}
	// one reader walking ALL documents upwards, and one visiting every chunk's first and last
	// documents downwards (every header entry of every chunk is decoded)
	if n := len(z.want.Docs); n > 6 {
		all := make([]uint64, n)
		for i := range all {
			all[i] = uint64(i)
		}
		var down []uint64
		for d := n - 1; d >= 0; d-- {
			if d%1024 <= 1 || d%1024 >= 1022 || d == n-1 {
				down = append(down, uint64(d))
			}
		}
		for _, o := range [][]uint64{all, down} {
			c.R.Transitions += int64(len(o))
			if bad, _ := runDVSeq1(z.seg, z.want, fields, o); bad != "" {
				c.Violate("ZOO", idx, sigOf("C07", "zoo", bad), bad, "ZOO "+z.name)
				return
			}
		}
	}
	for _, fs := range [][]string{fields, reverseStrings(fields)} {
		for _, o := range orders(docs, 3) {
			c.R.Transitions += int64(len(o))
			if bad, _ := runDVSeq(z.seg, z.want, fs, o); bad != "" {
				c.Violate("ZOO", idx, sigOf("C07", "zoo", bad), bad, "ZOO "+z.name)
				return
			}
		}
	}
}

func reverseStrings(in []string) []string {
	out := make([]string, len(in))
	for i, s := range in {
		out[len(in)-1-i] = s
	}
	return out
}

// zooMatching (C18): every list of <= 2 pairs over the first and last term of (at most) the first
// three and the last field, an absent term and an unknown field.
func zooMatching(c *explore.Ctx, idx int64, z *zooSeg) {
	var pairs []pairT
	fs := z.want.Fields
	if len(fs) > 4 {
		fs = append(append([]string{}, fs[:3]...), fs[len(fs)-1])
	}
	for _, f := range fs {
		ts := z.want.Terms(f)
		if len(ts) > 0 {
			pairs = append(pairs, pairT{f, ts[0]})
		}
		if len(ts) > 1 {
			pairs = append(pairs, pairT{f, ts[len(ts)-1]})
		}
	}
	pairs = append(pairs, pairT{"_id", "no-such-id"}, pairT{"nosuchfield", "x"})
	{
		var bm *roaring.Bitmap
		var err error
		msg := explore.Guard(func() { bm, err = z.seg.DocsMatchingTerms(nil) })
		if msg != "" || err != nil || bm == nil || !bm.IsEmpty() {
			c.Violate("ZOO", idx, sigOf("C18", "zoo", "wrong: nil list"), fmt.Sprintf("DocsMatchingTerms(nil): %s err=%v result=%v", msg, err, bm), "ZOO "+z.name)
			return
		}
	}
	for n := 0; n <= 2; n++ {
		ok := gen.Pow(len(pairs), n, func(v []int) bool {
			c.R.Transitions++
			list := make([]segment.Term, n)
			wantSet := map[uint32]bool{}
			for i, pi := range v {
				list[i] = pairs[pi]
				for _, d := range z.want.Postings(pairs[pi].f, pairs[pi].t) {
					wantSet[uint32(d)] = true
				}
			}
			var bm *roaring.Bitmap
			var err error
			msg := explore.Guard(func() { bm, err = z.seg.DocsMatchingTerms(list) })
			cas := fmt.Sprintf("ZOO %s list=%v", z.name, list)
			if msg != "" || err != nil {
				c.Violate("ZOO", idx, sigOf("C18", "zoo", "error: "+errText(msg, err)), errText(msg, err), cas)
				return false
			}
			var w []uint32
			for d := range wantSet {
				w = append(w, d)
			}
			sort.Slice(w, func(i, j int) bool { return w[i] < w[j] })
			if fmt.Sprint(bm.ToArray()) != fmt.Sprint(w) {
				c.Violate("ZOO", idx, "C18/zoo/wrong", fmt.Sprintf("got %d documents, want %d (first differences: got %v want %v)", bm.GetCardinality(), len(w), clipU(bm.ToArray()), clipU(w)), cas)
				return false
			}
			explore.Guard(func() { bm.Clear(); bm.Add(1 << 20) })
			return true
		})
		if !ok {
			return
		}
	}
}

func clipU(x []uint32) []uint32 {
	if len(x) > 6 {
		return x[:6]
	}
	return x
}
