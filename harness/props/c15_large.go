package props

import (
	"bytes"
	"fmt"
	"strings"

	"github.com/RoaringBitmap/roaring"
	segment "github.com/blugelabs/bluge_segment_api"
	ice "github.com/blugelabs/ice/v2"

	"verifharness/explore"
	"verifharness/gen"
	"verifharness/model"
)

// SEQ-LARGE: the purity property over segments that span more than one doc-value chunk (1024
// documents), more than one stored block (128) and more than one postings chunk: what a reader
// caches per chunk or per block must never be (a slice of) the segment's own bytes.

const c15LargeN = 1100

func c15LargeBatch(tag string) []model.Doc {
	b := make([]model.Doc, c15LargeN)
	for i := range b {
		f := model.Field{N: "t", Len: 1, DV: true, St: i%50 == 0, Terms: []model.Term{{T: fmt.Sprintf("%s%d", tag, i%7), Freq: 1}}}
		if f.St {
			f.Val = []byte(fmt.Sprintf("v%s%d", tag, i))
		}
		b[i] = model.Doc{gen.IDField(tag, i), f, {N: "a", Len: 1, Terms: []model.Term{{T: "x", Freq: 1 + i%2}}}}
		if i%3 == 0 {
			// a second doc-value field present in a third of the documents, with a longer value
			b[i] = append(b[i], model.Field{N: "u", Len: 1, DV: true, Terms: []model.Term{{T: strings.Repeat(tag, 1+i%40) + fmt.Sprint(i), Freq: 1}}})
		}
	}
	return b
}

type c15Large struct {
	segs  []segment.Segment // L loaded from raw[0], LM = merge([L']) loaded from raw[1], LB built in memory
	names []string
	raw   [][]byte
	copyB [][]byte
	base  []string
	bytes [][]byte
	full  []string
	// raw images of segments beyond the first two
	rawAt, rawCopyAt map[int][]byte
}

var c15Probe = []uint64{0, 1, 3, 500, 1023, 1024, 1030, c15LargeN - 1}

// c15LargeProbe: doc values (fresh reader, every DV field), stored fields and one postings walk
// for a handful of documents on either side of every chunk and block boundary.
func c15LargeProbe(sg segment.Segment) (string, error) {
	var sb strings.Builder
	var err error
	msg := explore.Guard(func() {
		var r segment.DocumentValueReader
		r, err = sg.DocumentValueReader([]string{"_id", "t", "u"})
		if err != nil {
			return
		}
		for _, d := range c15Probe {
			if d >= sg.Count() {
				continue
			}
			fmt.Fprintf(&sb, "dv%d:", d)
			if err = r.VisitDocumentValues(d, func(f string, t []byte) { fmt.Fprintf(&sb, "%s=%q,", f, t) }); err != nil {
				return
			}
			fmt.Fprintf(&sb, " st%d:", d)
			if err = sg.VisitStoredFields(d, func(f string, v []byte) bool { fmt.Fprintf(&sb, "%s=%q,", f, v); return true }); err != nil {
				return
			}
		}
		var dict segment.Dictionary
		dict, err = sg.Dictionary("a")
		if err != nil {
			return
		}
		var pl segment.PostingsList
		pl, err = dict.PostingsList([]byte("x"), nil, nil)
		if err != nil {
			return
		}
		var pi segment.PostingsIterator
		pi, err = pl.Iterator(true, true, true, nil)
		if err != nil {
			return
		}
		var sum, n uint64
		for {
			var p segment.Posting
			p, err = pi.Next()
			if err != nil || p == nil {
				break
			}
			n++
			sum += p.Number()*3 + uint64(p.Frequency())
		}
		fmt.Fprintf(&sb, " a:x n=%d sum=%d count=%d", n, sum, pl.Count())
	})
	if e := errOf(msg, err); e != nil {
		return "", e
	}
	return sb.String(), nil
}

func newC15Large() (*c15Large, error) {
	e := &c15Large{names: []string{"L(loaded, 1100 documents)", "LM(merge output, loaded)", "LB(built, 1100 documents)"}}
	lb, err := build(c15LargeBatch("k"), 1025)
	if err != nil {
		return nil, err
	}
	pb, _, err := persist(lb)
	if err != nil {
		return nil, err
	}
	mb, _, _, err := merge([]segment.Segment{lb}, []*roaring.Bitmap{bitmapOf(5)}, 1025)
	if err != nil {
		return nil, err
	}
	for _, img := range [][]byte{pb, mb} {
		raw := exact(img)
		e.raw = append(e.raw, raw)
		e.copyB = append(e.copyB, append([]byte(nil), img...))
		var l segment.Segment
		if msg := explore.Guard(func() { l, err = ice.Load(segment.NewDataBytes(raw)) }); msg != "" || err != nil {
			return nil, fmt.Errorf("%s", errText(msg, err))
		}
		e.segs = append(e.segs, l)
	}
	built, err := build(c15LargeBatch("q"), 1025)
	if err != nil {
		return nil, err
	}
	e.segs = append(e.segs, built)
	// LS: 130 documents whose first stored block decompresses to 1.4 MiB (whatever a reader keeps
	// of a large block), loaded from a kept slice
	{
		var m []model.Doc
		for i := 0; i < 130; i++ {
			v := make([]byte, 11000)
			x := uint32(i*2654435761 + 99)
			for j := range v {
				x = x*1664525 + 1013904223
				v[j] = byte('a' + (x>>24)%26)
			}
			m = append(m, model.Doc{gen.IDField("s", i), {N: "a", Len: 1, St: true, Val: v, Terms: []model.Term{{T: "x", Freq: 1}}}})
		}
		ls, err := build(m, 1025)
		if err != nil {
			return nil, err
		}
		img, _, err := persist(ls)
		if err != nil {
			return nil, err
		}
		raw := exact(img)
		var l segment.Segment
		if msg := explore.Guard(func() { l, err = ice.Load(segment.NewDataBytes(raw)) }); msg != "" || err != nil {
			return nil, fmt.Errorf("%s", errText(msg, err))
		}
		// raw images are compared by index: keep the order segs[i] <-> raw[i] for the loaded ones
		e.segs = append(e.segs, l)
		e.names = append(e.names, "LS(loaded, 130 documents, a 1.4 MiB stored block)")
		e.rawAt = map[int][]byte{len(e.segs) - 1: raw}
		e.rawCopyAt = map[int][]byte{len(e.segs) - 1: append([]byte(nil), img...)}
	}
	for _, sg := range e.segs {
		p, err := c15LargeProbe(sg)
		if err != nil {
			return nil, err
		}
		e.base = append(e.base, p)
		b, _, err := persist(sg)
		if err != nil {
			return nil, err
		}
		e.bytes = append(e.bytes, b)
	}
	return e, nil
}

func (e *c15Large) diff(full bool) string {
	for i, sg := range e.segs {
		if i < len(e.raw) && !bytes.Equal(e.raw[i], e.copyB[i]) {
			return fmt.Sprintf("raw-image: the byte slice %s was loaded from was modified", e.names[i])
		}
		if r, ok := e.rawAt[i]; ok && !bytes.Equal(r, e.rawCopyAt[i]) {
			return fmt.Sprintf("raw-image: the byte slice %s was loaded from was modified", e.names[i])
		}
		p, err := c15LargeProbe(sg)
		if err != nil {
			return "error: re-observation of " + e.names[i] + " failed: " + err.Error()
		}
		if p != e.base[i] {
			return fmt.Sprintf("segment-observation: %s answers differently than before", e.names[i])
		}
		b, _, err := persist(sg)
		if err != nil {
			return "error: WriteTo of " + e.names[i] + " failed: " + err.Error()
		}
		if !bytes.Equal(b, e.bytes[i]) {
			return fmt.Sprintf("segment-bytes: %s persists different bytes than before", e.names[i])
		}
		if full {
			o, err := observe(sg)
			if err != nil {
				return "error: full observation of " + e.names[i] + " failed: " + err.Error()
			}
			if e.full == nil {
				continue
			}
			if o.String() != e.full[i] {
				return fmt.Sprintf("segment-observation(full): %s answers differently than before", e.names[i])
			}
		}
	}
	return ""
}

type c15LargeOp struct {
	name string
	run  func(e *c15Large) error
}

func c15LargeOps() []c15LargeOp {
	var ops []c15LargeOp
	dv := func(name string, fields []string, docs ...uint64) {
		for si := 0; si < 3; si++ {
			si := si
			ops = append(ops, c15LargeOp{fmt.Sprintf("docvalues(%d,%v,one reader visits %v)", si, fields, docs), func(e *c15Large) error {
				var err error
				msg := explore.Guard(func() {
					var r segment.DocumentValueReader
					r, err = e.segs[si].DocumentValueReader(fields)
					if err != nil {
						return
					}
					for _, d := range docs {
						if d >= e.segs[si].Count() {
							d = e.segs[si].Count() - 1
						}
						if err = r.VisitDocumentValues(d, func(string, []byte) {}); err != nil {
							return
						}
					}
				})
				return errOf(msg, err)
			}})
		}
	}
	dv("forward", []string{"_id", "t"}, 3, 4, 1030, 1031)
	dv("backward", []string{"t", "u"}, 1099, 3, 1024, 0)
	for si := 0; si < 3; si++ {
		si := si
		ops = append(ops, c15LargeOp{fmt.Sprintf("stored(%d: 0,127,128,1050,5)", si), func(e *c15Large) error {
			var err error
			msg := explore.Guard(func() {
				for _, d := range []uint64{0, 127, 128, 1050, 5} {
					if err = e.segs[si].VisitStoredFields(d, func(string, []byte) bool { return true }); err != nil {
						return
					}
				}
			})
			return errOf(msg, err)
		}})
		ops = append(ops, c15LargeOp{fmt.Sprintf("postings(%d: a:x advance 1023,1024,1090; t:*)", si), func(e *c15Large) error {
			var err error
			msg := explore.Guard(func() {
				var d segment.Dictionary
				d, err = e.segs[si].Dictionary("a")
				if err != nil {
					return
				}
				var pl segment.PostingsList
				pl, err = d.PostingsList([]byte("x"), bitmapOf(2, 1025), nil)
				if err != nil {
					return
				}
				var pi segment.PostingsIterator
				pi, err = pl.Iterator(true, true, true, nil)
				if err != nil {
					return
				}
				for _, to := range []uint64{1023, 1024, 1090} {
					if _, err = pi.Advance(to); err != nil {
						return
					}
				}
				d, err = e.segs[si].Dictionary("t")
				if err != nil {
					return
				}
				it := d.Iterator(nil, nil, nil)
				for {
					var en segment.DictionaryEntry
					en, err = it.Next()
					if err != nil || en == nil {
						return
					}
					pl, err = d.PostingsList([]byte(en.Term()), nil, nil)
					if err != nil {
						return
					}
					pi, err = pl.Iterator(true, true, true, nil)
					if err != nil {
						return
					}
					for {
						var p segment.Posting
						p, err = pi.Next()
						if err != nil {
							return
						}
						if p == nil {
							break
						}
					}
				}
			})
			return errOf(msg, err)
		}})
	}
	ops = append(ops, c15LargeOp{"stored(LS: 0,1,129,0,127)", func(e *c15Large) error {
		var err error
		msg := explore.Guard(func() {
			for _, d := range []uint64{0, 1, 129, 0, 127} {
				if err = e.segs[3].VisitStoredFields(d, func(string, []byte) bool { return true }); err != nil {
					return
				}
			}
		})
		return errOf(msg, err)
	}})
	type mspec struct {
		segs  []int
		drops [][]uint32
	}
	for _, ms := range []mspec{
		{[]int{0}, [][]uint32{{7}}}, {[]int{1}, [][]uint32{nil}}, {[]int{2}, [][]uint32{{0, 1024}}},
		{[]int{0, 2}, [][]uint32{nil, {1}}}, {[]int{2, 1, 0}, [][]uint32{{3}, nil, {1099}}},
		{[]int{3, 0}, [][]uint32{{3}, {1}}}, {[]int{3}, [][]uint32{nil}},
	} {
		ms := ms
		ops = append(ops, c15LargeOp{fmt.Sprintf("merge(%v,drops=%v)", ms.segs, ms.drops), func(e *c15Large) error {
			var segs []segment.Segment
			var drops []*roaring.Bitmap
			for k, si := range ms.segs {
				segs = append(segs, e.segs[si])
				if ms.drops[k] == nil {
					drops = append(drops, nil)
				} else {
					drops = append(drops, bitmapOf(ms.drops[k]...))
				}
			}
			_, _, _, err := merge(segs, drops, 1025)
			return err
		}})
	}
	return ops
}

func runC15Large(c *explore.Ctx) {
	ops := c15LargeOps()
	maxLen := 2
	if c.Thorough() {
		maxLen = 3
	}
	scope := fmt.Sprintf("SEQ-LARGE(<=%d of %d ops)", maxLen, len(ops))
	var idx int64
	for n := 1; n <= maxLen; n++ {
		ok := gen.Pow(len(ops), n, func(v []int) bool {
			my := idx
			idx++
			if !c.MineIdx(scope, my) {
				return true
			}
			c.Eval()
			c.Nontrivial()
			var names []string
			for _, o := range v {
				names = append(names, ops[o].name)
			}
			cas := fmt.Sprintf("%s #%d %v", scope, my, names)
			c.Sample(my, func() string { return cas })
			e, err := newC15Large()
			if err != nil {
				envFail(c, "C15 SEQ-LARGE environment: "+err.Error())
				return false
			}
			c.R.States++
			if n == 1 {
				// single operations also compare the full observation before and after
				for _, sg := range e.segs {
					o, err := observe(sg)
					if err != nil {
						envFail(c, "C15 SEQ-LARGE environment: "+err.Error())
						return false
					}
					e.full = append(e.full, o.String())
				}
				if d := e.diff(false); d != "" {
					c.Violate(scope, my, sigOf("C15", "after-observe", d), "after one full observation: "+d, cas)
					return !c.Expired()
				}
			}
			for k, o := range v {
				c.R.Transitions++
				if err := ops[o].run(e); err != nil {
					c.Violate(scope, my, sigOf("C15", "op", "error: "+err.Error()), fmt.Sprintf("operation %d (%s) failed: %v", k, ops[o].name, err), cas)
					return !c.Expired()
				}
				if d := e.diff(n == 1); d != "" {
					c.Violate(scope, my, sigOf("C15", "after-op", d), fmt.Sprintf("after operation %d (%s): %s", k, ops[o].name, d), cas)
					return !c.Expired()
				}
			}
			return !c.Expired()
		})
		if !ok {
			break
		}
	}
}

// c15Drops: DROPS-LARGE - the caller's deletion bitmaps at sizes a merge might treat specially: a
// 4000-document segment merged (alone and after a small partner, through the public API and the
// chunk-mode hook) with a bitmap of 100 ... 3999 documents that are consecutive from the front,
// consecutive up to the end, or every other document, built by single Add calls (array / bitmap
// containers, no run containers). Afterwards the bitmap must have the same members AND the same
// serialized form, and the segment must persist the same bytes.
func c15Drops(c *explore.Ctx) {
	scope := "DROPS-LARGE"
	n := 4000
	var seg, partner segment.Segment
	var segBytes []byte
	var idx int64
	for _, size := range []int{100, 1024, 2048, 3071, 3072, 3073, 3500, 3999} {
		for pattern := 0; pattern < 3; pattern++ {
			for variant := 0; variant < 3; variant++ {
				if pattern == 2 && size > n/2 {
					continue
				}
				my := idx
				idx++
				if !c.MineIdx(scope, my) || c.Expired() {
					continue
				}
				c.Eval()
				c.Nontrivial()
				c.R.States++
				if seg == nil {
					batch := make([]model.Doc, n)
					for i := range batch {
						batch[i] = model.Doc{gen.IDField("d", i), {N: "a", Len: 1, Terms: []model.Term{{T: "x", Freq: 1}}}}
					}
					var err error
					if seg, err = build(batch, 1025); err != nil {
						envFail(c, "C15 DROPS-LARGE environment: "+err.Error())
						return
					}
					if segBytes, _, err = persist(seg); err != nil {
						envFail(c, "C15 DROPS-LARGE environment: "+err.Error())
						return
					}
					if partner, err = build([]model.Doc{gen.MixDoc(2, "p", 0), gen.MixDoc(1, "p", 1)}, 1025); err != nil {
						envFail(c, "C15 DROPS-LARGE environment: "+err.Error())
						return
					}
				}
				bm := roaring.New()
				for k := 0; k < size; k++ {
					switch pattern {
					case 0:
						bm.Add(uint32(k))
					case 1:
						bm.Add(uint32(n - 1 - k))
					case 2:
						bm.Add(uint32(2 * k))
					}
				}
				before, err := bm.ToBytes()
				if err != nil {
					envFail(c, "C15 DROPS-LARGE environment: "+err.Error())
					return
				}
				val := bm.Clone()
				cas := fmt.Sprintf("%s #%d: %d drops (pattern %d: 0 = from the front, 1 = up to the end, 2 = every other document) of a %d-document segment, merge variant %d (0 alone/public API, 1 alone/hook, 2 after a partner/public API)", scope, my, size, pattern, n, variant)
				var merr error
				msg := explore.Guard(func() {
					switch variant {
					case 0:
						var w sliceWriter
						_, merr = ice.Merge([]segment.Segment{seg}, []*roaring.Bitmap{bm}, 1<<16).WriteTo(&w, nil)
					case 1:
						_, _, _, merr = merge([]segment.Segment{seg}, []*roaring.Bitmap{bm}, 1025)
					case 2:
						var w sliceWriter
						_, merr = ice.Merge([]segment.Segment{partner, seg}, []*roaring.Bitmap{nil, bm}, 1<<16).WriteTo(&w, nil)
					}
				})
				c.R.Transitions++
				if e := errOf(msg, merr); e != nil {
					c.Violate(scope, my, sigOf("C15", "op", "error: "+e.Error()), e.Error(), cas)
					continue
				}
				after, err := bm.ToBytes()
				switch {
				case err != nil:
					c.Violate(scope, my, sigOf("C15", "after-op", "error: "+err.Error()), err.Error(), cas)
				case !bm.Equals(val):
					c.Violate(scope, my, sigOf("C15", "after-op", "bitmap-value: the caller's deletion bitmap changed"), fmt.Sprintf("cardinality %d -> %d", val.GetCardinality(), bm.GetCardinality()), cas)
				case !bytes.Equal(before, after):
					c.Violate(scope, my, sigOf("C15", "after-op", "bitmap-representation: the caller's deletion bitmap kept its value but its serialized form changed (in-place optimisation)"), fmt.Sprintf("%d -> %d serialized bytes", len(before), len(after)), cas)
				default:
					if b2, _, err := persist(seg); err != nil || !bytes.Equal(b2, segBytes) {
						c.Violate(scope, my, sigOf("C15", "after-op", "segment-bytes: the merged segment persists different bytes than before"), fmt.Sprint(err), cas)
					}
				}
			}
		}
	}
}
