package props

import (
	"bufio"
	"bytes"
	"errors"
	"fmt"
	"io"
	"strings"

	"github.com/RoaringBitmap/roaring"
	segment "github.com/blugelabs/bluge_segment_api"
	ice "github.com/blugelabs/ice/v2"

	"verifharness/explore"
	"verifharness/gen"
	"verifharness/model"
)

func init() {
	register(&explore.Prop{
		ID: "C12", Level: levelFE, Explorer: "E3 environment-answer enumerator",
		Rule: "workloads = every list of 1..2 segments over a small kinds alphabet with every deletion set (public Merge(...).WriteTo) + a 130-document two-block workload with doc values + Segment.WriteTo of built, loaded-from-memory and loaded-from-file segments; for each workload the destination writer fails at EVERY byte offset k in [0,len], in four variants (accepts exactly k bytes / rejects the crossing write whole) x (fail-stop: every later write fails too / transient: only that one write fails), x merge buffer sizes {0 (default),1,2,3,7,16,64,4096,1<<20}; cancellation: close channel closed before the call and closed at the moment the writer has received t bytes for EVERY t in [0,len] (buffer size 1 makes every write a boundary; also 16 and 4096), and - on the instrumented build - closed immediately before EVERY poll of the channel (every `select` the merge executes, by index; for one further workload - a 9300-document segment whose ten doc-value chunks are walked at the very end of the merge - before each of the first 64 and the last 256 polls); " +
			"oracle: writer reported an error => non-nil error; closed => ErrClosed or (nil error and bytes == fault-free file and n == len); one deviation per run, runs go to completion; distinct = (workload, fault kind, k, buffer size); non-trivial = the injected fault was actually hit",
		Assumptions: []string{"bounded workloads (DESIGN.md 5 C12)", "writer models: fail-stop and single transient failure; a writer that returns n < len(p) with a nil error (a violation of the io.Writer contract) is not modelled", "cancellation from another goroutine at every scheduling point is explored separately (C12 thorough, E4) when the instrumented build is available"},
		Budget:      qBudget, Run: runC12,
	})
}

var errInjected = errors.New("injected write failure")

// faultWriter accepts exactly failAt bytes (failAt < 0: never fails). whole: a write crossing the
// limit is rejected entirely. onBytes is invoked with the running total after every accepted write.
type faultWriter struct {
	buf    []byte
	failAt int
	whole  bool
	// transient: only the one write that crosses failAt fails; every later write is accepted again
	// (otherwise fail-stop: after the first error every later write fails too)
	transient bool
	tripped   bool
	failed    bool
	hits      int
	closeAt   int // -1: never; close ch when total accepted bytes >= closeAt (checked before and after each write)
	ch        chan struct{}
	closed    bool
}

func (w *faultWriter) maybeClose() {
	if w.closeAt >= 0 && !w.closed && len(w.buf) >= w.closeAt {
		close(w.ch)
		w.closed = true
	}
}

func (w *faultWriter) Write(p []byte) (int, error) {
	w.maybeClose()
	if w.failed {
		w.hits++
		return 0, errInjected
	}
	if w.failAt >= 0 && !w.tripped && len(w.buf)+len(p) > w.failAt {
		w.tripped = true
		w.failed = !w.transient
		w.hits++
		n := 0
		if !w.whole {
			n = w.failAt - len(w.buf)
			w.buf = append(w.buf, p[:n]...)
		}
		return n, errInjected
	}
	w.buf = append(w.buf, p...)
	w.maybeClose()
	return len(p), nil
}

type c12Workload struct {
	name string
	// run executes the write path against w with the given close channel and buffer size.
	run      func(w *faultWriter, ch chan struct{}, bufSize int) (int64, error)
	bufSizes []int
	isMerge  bool
	// pollsOnly: a large workload that takes part in the poll-index sweep only, and there with the
	// channel closed before each of the first 64 and the last 256 polls
	pollsOnly bool
}

func mergeWorkload(name string, segs []segment.Segment, drops []*roaring.Bitmap) c12Workload {
	return c12Workload{name: name, isMerge: true, bufSizes: []int{0, 1, 2, 3, 7, 16, 64, 4096, 1 << 20},
		run: func(w *faultWriter, ch chan struct{}, bufSize int) (n int64, err error) {
			msg := explore.Guard(func() { n, err = ice.Merge(segs, drops, bufSize).WriteTo(w, ch) })
			if msg != "" {
				return 0, fmt.Errorf("%s", msg)
			}
			return n, err
		}}
}

// persistWorkload: Segment.WriteTo. The "buffer size" of a persist workload is the size of a
// *bufio.Writer the CALLER wraps around the destination (0 = none): bufio.NewWriter returns its
// argument unchanged when that is already a large enough *bufio.Writer, so the data section then
// goes through the same buffer as the footer and a write error surfaces only when it is flushed.
func persistWorkload(name string, seg segment.Segment) c12Workload {
	return c12Workload{name: name, bufSizes: []int{0, 16, 4096, 1 << 20},
		run: func(w *faultWriter, ch chan struct{}, wrap int) (n int64, err error) {
			var dst io.Writer = w
			var bw *bufio.Writer
			if wrap > 0 {
				bw = bufio.NewWriterSize(w, wrap)
				dst = bw
			}
			msg := explore.Guard(func() { n, err = seg.WriteTo(dst, ch) })
			if msg != "" {
				return 0, fmt.Errorf("%s", msg)
			}
			if bw != nil && err == nil {
				// the caller flushes its own writer; an error it gets here was never reported by WriteTo
				// only if WriteTo left bytes unflushed - WriteTo flushes, so nothing should be pending
				if ferr := bw.Flush(); ferr != nil {
					return n, ferr
				}
			}
			return n, err
		}}
}

func c12Workloads(c *explore.Ctx) (out []c12Workload, cleanup func()) {
	var closers []func()
	cleanup = func() {
		for _, f := range closers {
			f()
		}
	}
	K, maxDocs := 2, 1
	if c.Thorough() {
		K, maxDocs = 3, 2
	}
	opts := gen.SegOptions(K, maxDocs)
	gen.MergeLists(opts, 2, func(idx int64, specs []gen.SegSpec) bool {
		var segs []segment.Segment
		var drops []*roaring.Bitmap
		for i, sp := range specs {
			s, err := build(sp.Batch(fmt.Sprintf("s%d", i)), 1025)
			if err != nil {
				panic(err)
			}
			segs = append(segs, s)
			if sp.DropForm == 0 {
				drops = append(drops, nil)
			} else {
				drops = append(drops, bitmapOf(sp.Drops...))
			}
		}
		out = append(out, mergeWorkload(fmt.Sprintf("merge#%d %v", idx, specs), segs, drops))
		return true
	})
	// two stored blocks, doc values written progressively, multi-chunk postings
	big := storedBBatch(3, 5, 2, 3)
	for i := range big {
		if i%2 == 0 {
			big[i] = append(big[i], model.Field{N: "b", Len: 1, Terms: []model.Term{{T: fmt.Sprintf("t%d", i%5), Freq: 1}}, DV: true})
		}
	}
	bs, err := build(big, 1025)
	if err != nil {
		panic(err)
	}
	small, _ := build([]model.Doc{gen.MixDoc(2, "z", 0), gen.MixDoc(4, "z", 1)}, 1025)
	out = append(out, mergeWorkload("merge-130docs+2", []segment.Segment{bs, small}, []*roaring.Bitmap{bitmapOf(1, 7, 127), nil}))
	// 9300 documents with doc values in the alphabetically last field, after a small segment: ten
	// doc-value chunks are walked at the very end of the merge (poll sweep only)
	{
		huge := make([]model.Doc, 9300)
		for i := range huge {
			huge[i] = model.Doc{gen.IDField("y", i), {N: "zz", Len: 1, DV: true, Terms: []model.Term{{T: fmt.Sprintf("v%d", i%13), Freq: 1}}}}
		}
		hs, err := build(huge, 1025)
		if err != nil {
			panic(err)
		}
		first, _ := build([]model.Doc{{gen.IDField("w", 0), {N: "zz", Len: 1, DV: true, Terms: []model.Term{{T: "v1", Freq: 1}}}}, {gen.IDField("w", 1)}}, 1025)
		w := mergeWorkload("merge-2+9300docs-dv-last", []segment.Segment{first, hs}, []*roaring.Bitmap{nil, bitmapOf(5)})
		w.pollsOnly = true
		out = append(out, w)
	}
	// persist workloads
	out = append(out, persistWorkload("persist-built-small", small))
	out = append(out, persistWorkload("persist-built-130", bs))
	if b, _, err := persist(bs); err == nil {
		if l, err := loadMem(b); err == nil {
			out = append(out, persistWorkload("persist-loaded-mem-130", l))
		}
		if l, cl, err := loadFile(b); err == nil {
			closers = append(closers, cl)
			out = append(out, persistWorkload("persist-loaded-file-130", l))
		}
	}
	if b, _, err := persist(small); err == nil {
		if l, cl, err := loadFile(b); err == nil {
			closers = append(closers, cl)
			out = append(out, persistWorkload("persist-loaded-file-small", l))
		}
	}
	// the fixed workloads (two-block merge, persist of built / loaded segments) first: in the thorough
	// tier the enumerated merge workloads are many and the budget may end the run among them
	fixed := len(out) - 0
	for i, w := range out {
		if !strings.HasPrefix(w.name, "merge#") {
			fixed = i
			break
		}
	}
	out = append(append([]c12Workload{}, out[fixed:]...), out[:fixed]...)
	return out, cleanup
}

// c12PollSweep is installed by the instrumented build: cancellation at every poll index.
var c12PollSweep func(c *explore.Ctx, wls []c12Workload)

func runC12(c *explore.Ctx) {
	wls, cleanup := c12Workloads(c)
	defer cleanup()
	if c12PollSweep != nil {
		c12PollSweep(c, wls)
	} else {
		c.R.Notes = append(c.R.Notes, "poll-index cancellation sweep skipped: not the instrumented build")
	}
	for wi, wl := range wls {
		if wl.pollsOnly {
			continue
		}
		scope := fmt.Sprintf("WL%d", wi)
		// fault-free reference
		ref := &faultWriter{failAt: -1, closeAt: -1}
		n0, err := wl.run(ref, nil, 4096)
		if err != nil {
			if c.Shard == 0 {
				c.Eval()
				c.Violate(scope, 0, sigOf("C12", "fault-free", "error: "+err.Error()), err.Error(), wl.name)
			}
			continue
		}
		total := len(ref.buf)
		if n0 != int64(total) {
			if c.Shard == 0 {
				c.Eval()
				c.Violate(scope, 0, "C12/fault-free/byte-count", fmt.Sprintf("n=%d, wrote %d", n0, total), wl.name)
			}
			continue
		}
		var idx int64
		// (1) failing writer at every offset
		for _, bufSize := range wl.bufSizes {
			for variant := 0; variant < 4; variant++ {
				whole, transient := variant&1 != 0, variant&2 != 0
				for k := 0; k <= total; k++ {
					my := idx
					idx++
					if !c.MineIdx(scope, my) {
						continue
					}
					c.Eval()
					w := &faultWriter{failAt: k, whole: whole, transient: transient, closeAt: -1}
					n, err := wl.run(w, nil, bufSize)
					cas := fmt.Sprintf("%s: writer fails at byte %d of %d (whole=%v, transient=%v) bufSize=%d", wl.name, k, total, whole, transient, bufSize)
					c.Sample(my, func() string { return cas })
					if w.hits > 0 {
						c.Nontrivial()
						if err == nil {
							c.Violate(scope, my, "C12/writer-error-swallowed", fmt.Sprintf("the writer returned an error (%d times) but the call returned n=%d, err=nil", w.hits, n), cas)
						}
					} else {
						// the fault was never reached: the whole file must have been written
						if err != nil || !bytes.Equal(w.buf, ref.buf) || n != int64(total) {
							c.Violate(scope, my, "C12/unfaulted-run-differs", fmt.Sprintf("writer never failed, yet n=%d err=%v bytes equal=%v", n, err, bytes.Equal(w.buf, ref.buf)), cas)
						} else if k < total {
							c.R.Error = fmt.Sprintf("harness: fault at %d < %d was never hit (%s)", k, total, cas)
						}
					}
					if c.Expired() {
						return
					}
				}
			}
		}
		// (2) cancellation
		closeBufs := []int{0}
		if wl.isMerge {
			closeBufs = []int{1, 16, 4096}
		}
		for _, bufSize := range closeBufs {
			for t := -1; t <= total; t++ {
				my := idx
				idx++
				if !c.MineIdx(scope, my) {
					continue
				}
				c.Eval()
				ch := make(chan struct{})
				w := &faultWriter{failAt: -1, closeAt: t, ch: ch}
				if t < 0 {
					close(ch) // closed before the call
					w.closeAt = -1
				}
				n, err := wl.run(w, ch, bufSize)
				cas := fmt.Sprintf("%s: close channel closed when %d of %d bytes were written, bufSize=%d", wl.name, t, total, bufSize)
				if t < 0 || w.closed {
					c.Nontrivial()
				}
				complete := err == nil && bytes.Equal(w.buf, ref.buf) && n == int64(total)
				if !(errors.Is(err, segment.ErrClosed) || complete) {
					kind := "partial-success"
					if err != nil {
						kind = "other-error"
					}
					c.Violate(scope, my, "C12/cancel/"+kind, fmt.Sprintf("n=%d err=%v bytes=%d/%d identical=%v", n, err, len(w.buf), total, bytes.Equal(w.buf, ref.buf)), cas)
				}
				if err == nil {
					c.Count("cancelled_but_completed")
				} else {
					c.Count("cancelled_errclosed")
				}
				if c.Expired() {
					return
				}
			}
		}
	}
}
