//go:build verifinstr

package props

import "github.com/blugelabs/ice/v2/verifrt"

// On the instrumented build every C19 case starts from empty, deterministic (LIFO) pools: what a
// failed call leaves in a pool - a context put back twice, say - then meets the follow-up calls of
// the SAME case on every run, instead of depending on what sync.Pool happens to hand out.
func init() {
	c19PoolReset = func() {
		verifrt.DetPools = true
		verifrt.ResetPools()
	}
}
