package props

import (
	"bytes"
	"fmt"
	"os"
	"strings"
	"time"

	"github.com/RoaringBitmap/roaring"
	segment "github.com/blugelabs/bluge_segment_api"
	ice "github.com/blugelabs/ice/v2"

	"verifharness/explore"
	"verifharness/model"
	"verifharness/obs"
)

var (
	qBudget = map[string]time.Duration{"quick": 300 * time.Second, "thorough": 12 * time.Minute}
)

const levelMC = "model_checking"
const levelFE = "fault_enumeration"

var commonAssumptions = []string{
	"bounded scopes: every verdict is 'no violation inside the enumerated scope' (DESIGN.md section 4/9)",
	"roaring, vellum and klauspost/zstd are trusted to behave as documented",
	"reference model (harness/model) is the specification of a logical segment; it is cross-checked by C17 (metamorphic) and by the detection runs in seeded/ and mutants/",
}

// build builds a segment with the verif hook; panics become errors.
func build(batch []model.Doc, mode uint32) (seg segment.Segment, err error) {
	if msg := explore.Guard(func() {
		seg, _, err = ice.VerifNew(model.SegDocs(batch), model.NormCalc, mode)
	}); msg != "" {
		return nil, fmt.Errorf("%s", msg)
	}
	return seg, err
}

func persist(seg segment.Segment) (b []byte, n int64, err error) {
	var buf bytes.Buffer
	if msg := explore.Guard(func() { n, err = seg.WriteTo(&buf, nil) }); msg != "" {
		return nil, 0, fmt.Errorf("%s", msg)
	}
	return buf.Bytes(), n, err
}

// persistCh: WriteTo with a caller-supplied channel (open and never closed: the write must behave
// exactly as with a nil channel).
func persistCh(seg segment.Segment, ch chan struct{}) (b []byte, n int64, err error) {
	var buf bytes.Buffer
	if msg := explore.Guard(func() { n, err = seg.WriteTo(&buf, ch) }); msg != "" {
		return nil, 0, fmt.Errorf("%s", msg)
	}
	return buf.Bytes(), n, err
}

func exact(b []byte) []byte {
	c := make([]byte, len(b))
	copy(c, b)
	return c[:len(c):len(c)]
}

func loadMem(b []byte) (seg segment.Segment, err error) {
	if msg := explore.Guard(func() { seg, err = ice.Load(segment.NewDataBytes(exact(b))) }); msg != "" {
		return nil, fmt.Errorf("%s", msg)
	}
	return seg, err
}

// loadFile loads through an io.ReaderAt-backed Data (NewDataFile on a temp file).
func loadFile(b []byte) (seg segment.Segment, closeF func(), err error) {
	f, err := os.CreateTemp("", "seg")
	if err != nil {
		return nil, nil, err
	}
	closeF = func() { f.Close(); os.Remove(f.Name()) }
	if _, err = f.Write(b); err != nil {
		closeF()
		return nil, nil, err
	}
	var d *segment.Data
	d, err = segment.NewDataFile(f)
	if err != nil {
		closeF()
		return nil, nil, err
	}
	if msg := explore.Guard(func() { seg, err = ice.Load(d) }); msg != "" {
		err = fmt.Errorf("%s", msg)
	}
	if err != nil {
		closeF()
		return nil, nil, err
	}
	return seg, closeF, nil
}

// merge runs the chunk-mode parameterised merger into memory.
func merge(segs []segment.Segment, drops []*roaring.Bitmap, mode uint32) (b []byte, nums [][]uint64, n uint64, err error) {
	var buf bytes.Buffer
	if msg := explore.Guard(func() { nums, n, err = ice.VerifMerge(segs, drops, &buf, mode, nil) }); msg != "" {
		return nil, nil, 0, fmt.Errorf("%s", msg)
	}
	return buf.Bytes(), nums, n, err
}

func observe(seg segment.Segment) (o *obs.Obs, err error) {
	if msg := explore.Guard(func() { o, err = obs.Observe(seg) }); msg != "" {
		return nil, fmt.Errorf("%s", msg)
	}
	return o, err
}

// sigOf derives a stable signature from a diff / error text: first word (component) and
// failure class.
func sigOf(prop, where, msg string) string {
	cls := "wrong"
	if strings.Contains(msg, "panic:") {
		cls = "panic"
		if i := strings.Index(msg, " @ "); i >= 0 {
			cls += "@" + strings.Fields(msg[i+3:])[0]
		}
	} else if strings.HasPrefix(msg, "error:") {
		cls = "error"
	}
	comp := msg
	if i := strings.IndexAny(comp, " :"); i > 0 {
		comp = comp[:i]
	}
	if cls != "wrong" {
		comp = ""
	}
	s := prop + "/" + where + "/" + cls
	if comp != "" {
		s += "/" + comp
	}
	return s
}

func bitmapOf(xs ...uint32) *roaring.Bitmap {
	b := roaring.New()
	for _, x := range xs {
		b.Add(x)
	}
	return b
}

func modeStr(m uint32) string { return fmt.Sprintf("mode=%d", m) }

func errText(msg string, err error) string {
	if err != nil {
		if msg != "" {
			return msg + " " + err.Error()
		}
		return err.Error()
	}
	return msg
}

// envFail: the property's fixed environment (segments built, persisted, loaded or observed from
// fixed valid inputs before any exploration starts) could not be set up by the code under test.
// That is a failure of the current tree on valid input, not of the harness: it is reported as a
// violation (and replays as one), so that a change which breaks the environment itself is detected
// rather than turning the check into a harness error.
func envFail(c *explore.Ctx, what string) {
	c.Eval()
	c.Violate("ENV", 0, sigOf(c.Prop, "environment", "error: "+what), what, "environment set-up from fixed valid inputs")
}

// renameTerm rewrites term from -> to in every instance of the field (in place) and returns the batch.
func renameTerm(b []model.Doc, field, from, to string) []model.Doc {
	if from == to {
		return b
	}
	for _, d := range b {
		for fi := range d {
			if d[fi].N != field {
				continue
			}
			for ti := range d[fi].Terms {
				if d[fi].Terms[ti].T == from {
					d[fi].Terms[ti].T = to
				}
			}
		}
	}
	return b
}

// limitWriter accepts limit bytes and then fails (a partial write of the call that crosses the limit).
type limitWriter struct {
	limit, n int
}

func (w *limitWriter) Write(p []byte) (int, error) {
	if w.n+len(p) <= w.limit {
		w.n += len(p)
		return len(p), nil
	}
	k := w.limit - w.n
	w.n = w.limit
	return k, fmt.Errorf("device full after %d bytes", w.limit)
}
