package props

import (
	"fmt"
	"strings"

	"verifharness/explore"
	"verifharness/gen"
	"verifharness/model"
	"verifharness/obs"
)

func init() {
	register(&explore.Prop{
		ID: "C01", Level: levelMC, Explorer: "E1 input-space enumerator",
		Rule: "every batch of scopes POST(N) x modes, TERM, FIELD, REP, MIX x modes, MANYTERMS, LARGE x modes is built with the real builder and its full observation compared with the reference model; " +
			"further families (DESIGN.md 4, 5): NORMS, EXTREME (incl. postings of 65 535..65 537 locations, stored values of 5 and 9 MiB), HUGE 66 000 documents, ZOO-BUILT (the input batches of every ZOO member); distinct = distinct (mode, decoded batch); non-trivial = some postings list has >=2 postings, or a location, or a repeated field, or >=2 fields",
		Assumptions: commonAssumptions, Budget: qBudget, Run: runC01,
	})
}

const c01Comps = obs.CFields | obs.CDict | obs.CPostings

func batchNontrivial(batch []model.Doc) bool {
	fields := map[string]bool{}
	cnt := map[string]int{}
	for _, d := range batch {
		seen := map[string]bool{}
		for _, f := range d {
			fields[f.N] = true
			if seen[f.N] {
				return true
			}
			seen[f.N] = true
			for _, t := range f.Terms {
				if len(t.Locs) > 0 {
					return true
				}
				cnt[f.N+"\x00"+t.T]++
				if cnt[f.N+"\x00"+t.T] >= 2 {
					return true
				}
			}
		}
	}
	return len(fields) >= 2
}

// multiChunk reports whether some postings list spans >= 2 chunks under a fixed chunk size.
func multiChunk(ls *model.LSeg, mode uint32) bool {
	if mode > 1024 {
		return false
	}
	for _, f := range ls.Fields {
		for _, t := range ls.Terms(f) {
			ps := ls.Postings(f, t)
			if len(ps) >= 2 && ps[0]/uint64(mode) != ps[len(ps)-1]/uint64(mode) {
				return true
			}
		}
	}
	return false
}

// checkBuilt builds batch under mode and compares with the model on comps.
func checkBuilt(c *explore.Ctx, prop, scope string, idx int64, batch []model.Doc, mode uint32, comps int) {
	c.Eval()
	ls := model.Build(batch)
	if batchNontrivial(batch) {
		c.Nontrivial()
	}
	if multiChunk(ls, mode) {
		c.Count("multi_chunk_lists")
	}
	render := func() string {
		return fmt.Sprintf("%s #%d %s: %s", scope, idx, modeStr(mode), model.BatchString(batch))
	}
	c.Sample(idx, render)
	seg, err := build(batch, mode)
	if err != nil {
		c.Violate(scope, idx, sigOf(prop, "build", "error: "+err.Error()), err.Error(), render())
		return
	}
	got, err := observe(seg)
	if err != nil {
		c.Violate(scope, idx, sigOf(prop, "observe", "error: "+err.Error()), err.Error(), render())
		return
	}
	c.Outcome(explore.Hash(got.String()))
	if d := obs.Diff(got, obs.Expected(ls), comps); d != "" {
		c.Violate(scope, idx, sigOf(prop, "built", d)+c01Predicate(batch, d), d, render())
		return
	}
	// a built segment keeps answering the same after the (pooled) builder has built something else
	if strings.HasPrefix(scope, "MIX(") && mode == 1025 {
		if _, err := build(c16Other, 1025); err == nil {
			again, err := observe(seg)
			if err != nil {
				c.Violate(scope, idx, sigOf(prop, "observe-after-another-build", "error: "+err.Error()), err.Error(), render())
			} else if d := obs.Diff(again, obs.Expected(ls), obs.CAll); d != "" {
				c.Violate(scope, idx, sigOf(prop, "built-then-another-build", d), d, render())
			}
		}
	}
}

// c01Predicate names the defect class for known shapes (used by known_findings signatures).
func c01Predicate(batch []model.Doc, diff string) string {
	// a term repeated across instances (or inside one instance) of a field whose locations
	// name another field
	for _, d := range batch {
		seen := map[string]bool{}
		for _, f := range d {
			for _, t := range f.Terms {
				k := f.N + "\x00" + t.T
				for _, l := range t.Locs {
					if seen[k] && l.F != "" && l.F != f.N {
						return "/repeated-term-foreign-location"
					}
				}
				seen[k] = true
			}
		}
	}
	return ""
}

func runC01(c *explore.Ctx) {
	postN, termN, fieldN, mixK, mixDocs := 5, 2, 2, 8, 3
	modes := gen.ModesAll
	if c.Thorough() {
		postN, mixK = 7, gen.NMix
	}
	for _, m := range modes {
		m := m
		scope := fmt.Sprintf("POST(%d)/%d", postN, m)
		gen.Post(postN, func(idx int64, batch []gen.Doc, kinds []int) bool {
			if c.Mine(scope, idx, explore.Hash(scope, fmt.Sprint(kinds))) {
				checkBuilt(c, "C01", scope, idx, batch, m, c01Comps)
			}
			return !c.Expired()
		})
	}
	for _, m := range modes {
		m := m
		scope := fmt.Sprintf("MIX(%d,%d)/%d", mixK, mixDocs, m)
		gen.Mix(mixK, mixDocs, "m", func(idx int64, batch []gen.Doc, kinds []int) bool {
			if c.Mine(scope, idx, explore.Hash(scope, fmt.Sprint(kinds))) {
				checkBuilt(c, "C01", scope, idx, batch, m, c01Comps)
			}
			return !c.Expired()
		})
	}
	// the same MIX batches with every reported field length forced to 0 (and to 1): the length is
	// whatever the analyzer reports; it feeds the norm only
	for _, forced := range []int{0, 1} {
		forced := forced
		scope := fmt.Sprintf("MIX(%d,2)/len=%d", mixK, forced)
		gen.Mix(mixK, 2, "m", func(idx int64, batch []gen.Doc, kinds []int) bool {
			if c.MineIdx(scope, idx) {
				for _, d := range batch {
					for i := range d {
						d[i].Len = forced
					}
				}
				checkBuilt(c, "C01", scope, idx, batch, 1025, c01Comps)
			}
			return !c.Expired()
		})
	}
	// NORMS: the same batches under norms with unusual float32 bit patterns (>= 2, huge, maximal,
	// denormal, minimal): ice treats the norm as an opaque strictly positive float32
	for _, nm := range model.NormModes() {
		nm := nm
		scope := fmt.Sprintf("MIX(5,2)/norms%d", nm)
		model.WithNormMode(nm, func() {
			gen.Mix(5, 2, "m", func(idx int64, batch []gen.Doc, kinds []int) bool {
				if c.MineIdx(scope, idx) {
					checkBuilt(c, "C01", scope, idx, batch, 1025, c01Comps)
				}
				return !c.Expired()
			})
		})
	}
	for _, m := range []uint32{1, 1025} {
		m := m
		scope := fmt.Sprintf("TERM(%d,3)/%d", termN, m)
		gen.TermScope(termN, 3, func(idx int64, batch []gen.Doc) bool {
			if c.MineIdx(scope, idx) {
				checkBuilt(c, "C01", scope, idx, batch, m, c01Comps)
			}
			return !c.Expired()
		})
		if c.Thorough() {
			scope := fmt.Sprintf("TERM(3,2)/%d", m)
			gen.TermScope(3, 2, func(idx int64, batch []gen.Doc) bool {
				if c.MineIdx(scope, idx) {
					checkBuilt(c, "C01", scope, idx, batch, m, c01Comps)
				}
				return !c.Expired()
			})
		}
	}
	for _, m := range []uint32{1, 1025} {
		m := m
		scope := fmt.Sprintf("FIELD(%d,6)/%d", fieldN, m)
		gen.FieldScope(fieldN, 2, 6, func(idx int64, batch []gen.Doc) bool {
			if c.MineIdx(scope, idx) {
				checkBuilt(c, "C01", scope, idx, batch, m, c01Comps)
			}
			return !c.Expired()
		})
		if c.Thorough() {
			scope := fmt.Sprintf("FIELD(3)/%d", m)
			gen.FieldScope(3, 1, 4, func(idx int64, batch []gen.Doc) bool {
				if c.MineIdx(scope, idx) {
					checkBuilt(c, "C01", scope, idx, batch, m, c01Comps)
				}
				return !c.Expired()
			})
		}
	}
	{
		maxDocs, maxRep, nk := 1, 3, 8
		if c.Thorough() {
			maxDocs, maxRep, nk = 2, 2, 4
		}
		for _, m := range []uint32{1, 1025} {
			m := m
			scope := fmt.Sprintf("REP(%d,%d,%d)/%d", maxDocs, maxRep, nk, m)
			gen.Rep(maxDocs, maxRep, nk, func(idx int64, batch []gen.Doc) bool {
				if c.MineIdx(scope, idx) {
					checkBuilt(c, "C01", scope, idx, batch, m, c01Comps)
				}
				return !c.Expired()
			})
			if c.Thorough() {
				scope := fmt.Sprintf("REP(1,3,16)/%d", m)
				gen.Rep(1, 3, 16, func(idx int64, batch []gen.Doc) bool {
					if c.MineIdx(scope, idx) {
						checkBuilt(c, "C01", scope, idx, batch, m, c01Comps)
					}
					return !c.Expired()
				})
			}
		}
	}
	// MANYTERMS: hundreds of distinct terms with a long shared prefix in one field, frequencies and
	// positions needing multi-byte varints, a second field with a handful of terms
	for ci, nt := range []int{130, 300, 1000} {
		for _, m := range []uint32{1025, 2} {
			scope := "MANYTERMS"
			my := int64(ci*2) + int64(m%2)
			if !c.MineIdx(scope, my) || c.Expired() {
				continue
			}
			var batch []model.Doc
			for d := 0; d < 3; d++ {
				var ts []model.Term
				for t := d; t < nt; t += 1 + d {
					ts = append(ts, model.Term{T: fmt.Sprintf("a-long-common-prefix-shared-by-all-terms-%04d", t), Freq: 1 + (t*37)%400,
						Locs: []model.Loc{{P: t * 3, S: t * 1000, E: t*1000 + 7}}})
				}
				n := 0
				for _, t := range ts {
					n += t.Freq
				}
				batch = append(batch, model.Doc{{N: "a", Len: n, Terms: ts}, {N: "b", Len: 2, DV: true, Terms: []model.Term{{T: "x", Freq: 1}, {T: fmt.Sprintf("d%d", d), Freq: 1}}}})
			}
			checkBuiltLarge(c, scope, my, batch, m, fmt.Sprintf("MANYTERMS terms=%d %s", nt, modeStr(m)))
		}
	}
	// EXTREME: fixed batches with extreme values (huge frequencies and location numbers, long terms
	// and values, thousands of terms / locations / instances)
	{
		var ei int64
		for _, e := range gen.Extremes() {
			for _, m := range []uint32{1025, 1024, 1, 3} {
				my := ei
				ei++
				if e.Heavy && m != 1025 {
					continue
				}
				if c.MineIdx("EXTREME", my) && !c.Expired() {
					checkBuiltLarge(c, "EXTREME", my, e.Batch, m, fmt.Sprintf("EXTREME %s %s", e.Name, modeStr(m)))
				}
			}
		}
	}
	// ZOO-BUILT: the (first) input batch of every ZOO member, as a built segment
	for zi, mk := range zooMakers() {
		if mk.first == nil || mk.heavy {
			continue
		}
		if c.MineIdx("ZOO-BUILT", int64(zi)) && !c.Expired() {
			b := mk.first()
			checkBuiltLarge(c, "ZOO-BUILT", int64(zi), b, 1025, "ZOO-BUILT "+mk.name)
		}
	}
	// HUGE: 66 000 documents - document numbers cross 65 536 (roaring container boundary)
	for hi, p := range []int{0, 1} {
		if c.MineIdx("HUGE", int64(hi)) && !c.Expired() {
			batch := gen.Large(66000, p, 1)
			for j := range batch {
				if j%1000 == 0 || (j >= 65534 && j <= 65538) || j == 65999 {
					batch[j] = append(gen.Doc{gen.IDField("h", j)}, batch[j]...)
					batch[j] = append(batch[j], model.Field{N: "b", Len: 1, DV: true, St: true, Val: []byte(fmt.Sprintf("stored-%d", j)), Terms: []model.Term{{T: fmt.Sprintf("t%d", j%7), Freq: 1}}})
				}
			}
			checkBuiltLarge(c, "HUGE", int64(hi), batch, 1025, fmt.Sprintf("HUGE n=66000 pattern=%d adaptive", p))
		}
	}
	// LARGE: the only way to make the adaptive mode multi-chunk
	largeModes := []uint32{1025, 1024}
	sizes := []int{1023, 1024, 1025, 2049}
	if c.Thorough() {
		largeModes = []uint32{1025, 1024, 100, 7}
		sizes = gen.LargeSizes
	}
	var idx int64
	for _, n := range sizes {
		for p := 0; p < gen.NLargePatterns; p++ {
			for pay := 0; pay < 3; pay++ {
				for _, m := range largeModes {
					scope := "LARGE"
					if c.MineIdx(scope, idx) && !c.Expired() {
						batch := gen.Large(n, p, pay)
						c.Count("large_cases")
						checkBuiltLarge(c, scope, idx, batch, m, fmt.Sprintf("n=%d pattern=%d payload=%d %s", n, p, pay, modeStr(m)))
					}
					idx++
				}
			}
		}
	}
}

func checkBuiltLarge(c *explore.Ctx, scope string, idx int64, batch []model.Doc, mode uint32, desc string) {
	c.Eval()
	c.Nontrivial()
	ls := model.Build(batch)
	seg, err := build(batch, mode)
	if err != nil {
		c.Violate(scope, idx, sigOf("C01", "build", "error: "+err.Error()), err.Error(), desc)
		return
	}
	got, err := observe(seg)
	if err != nil {
		c.Violate(scope, idx, sigOf("C01", "observe", "error: "+err.Error()), err.Error(), desc)
		return
	}
	c.Outcome(explore.Hash(got.String()))
	if d := obs.Diff(got, obs.Expected(ls), c01Comps); d != "" {
		c.Violate(scope, idx, sigOf("C01", "built", d), d, desc)
	}
}
