//go:build verifinstr

package props

import (
	"bytes"
	"fmt"
	"sort"
	"strings"

	ice "github.com/blugelabs/ice/v2"
	"github.com/blugelabs/ice/v2/verifrt"

	"verifharness/explore"
	"verifharness/gen"
	"verifharness/model"
)

func init() {
	register(&explore.Prop{
		ID: "C14", Level: levelMC, Explorer: "E2 path mode (build histories, deterministic pool, owned map order) + E4 schedule explorer (concurrent builders)",
		Instr: true,
		Rule: "instrumented build: sync.Pool replaced by a deterministic LIFO pool, every `range` over a map iterates in an order the explorer chooses. Histories: a menu of 15 batches chosen to leave different residue in the pooled builder (more/fewer fields, terms, postings, locations; doc values on/off; larger then smaller; composite fields naming the same field under different schemas; a 41-field batch whose later documents carry only 2-3 of the fields; a batch in which every field including `_id` has doc values; a 300-word dictionary of pseudo-random words; a build that FAILS with an unknown chunk mode); every history of length <=3 (thorough <=4) followed by every target, under chunk modes {1025, 2}; HIST-LARGE: histories [big], [big, m] (thorough also [m, big]) with big = a 1100-document batch or a 5000-word dictionary (thorough also 2100 documents) followed by every target; HIST-DOCS: two batches of 3100 / 4200 documents with equal shape but other field names (other norms) one after the other, with and without a small batch in between; HIST-HUGE: histories [huge], [m, huge] with huge = one document of 140000 distinct terms (beyond 2^16 and 2^17 postings lists), followed by every target and by dictionaries of 5000, 2000, 70 001 and 135 000 words; map order: for every map-range site reached, reverse and rotated orders as single deviations; schedules: 2 threads x 2 builds and 3 threads x 1 build of different batches at preemption bound 2 (scheduling points at pool/once operations and written package-level state); " +
			"oracle: bytes(target | history, order, schedule) == bytes(target | cold start, sorted order, alone); non-trivial = the pool held a recycled builder when the target build started (VerifInterimPool + PoolLen) / schedule has a preemption",
		Assumptions: []string{"the deterministic pool models sync.Pool as LIFO reuse; the real pool may also drop objects (equivalent to a cold start, which is the baseline)", "bounded histories/menus (DESIGN.md 5 C14)", "preemption bound 2, <=3 threads; statement-level atomicity"},
		Budget:      qBudget, Run: runC14,
	})
}

func c14Menu() [][]model.Doc {
	many := func(n int, fields []string, terms int, locs bool) []model.Doc {
		var b []model.Doc
		for i := 0; i < n; i++ {
			d := model.Doc{gen.IDField("h", i)}
			for _, f := range fields {
				var ts []model.Term
				for t := 0; t < terms; t++ {
					tm := model.Term{T: fmt.Sprintf("%s%d", f, (t+i)%(terms+1)), Freq: 1 + t%2}
					if locs {
						tm.Locs = []model.Loc{{P: t + 1, S: t, E: t + 1}}
					}
					ts = append(ts, tm)
				}
				n := 0
				for _, t := range ts {
					n += t.Freq
				}
				d = append(d, model.Field{N: f, Len: n, Terms: ts, DV: gen.DVByName(f), St: f == "a", Val: []byte(f + "-value")})
			}
			b = append(b, d)
		}
		return b
	}
	return [][]model.Doc{
		{}, // empty batch
		many(1, []string{"a"}, 1, false),
		many(3, []string{"a", "b", "c", "d", "z"}, 4, true), // large: many fields, terms, locations, doc values
		many(2, []string{"b", "d"}, 2, false),               // doc values only
		{{{N: "z", St: true, Val: []byte("only stored")}}},
		many(4, []string{"a"}, 1, false),               // one term, four postings
		{gen.MixDoc(4, "h", 0), gen.MixDoc(3, "h", 1)}, // composite + repeated field
		many(3, []string{"a", "b"}, 2, true),           // subset of the large batch's fields
		many(8, []string{"c"}, 1, false),               // more documents, fewer terms
		many(2, []string{"a", "b", "c"}, 6, true),
		// two batches whose composite field names the same field under different schemas: the
		// field id of "n" is 1 in the first and 3 in the second
		composite([]string{"n"}),
		composite([]string{"a", "b", "n"}),
		wide(40),
		c14Terms(300), // a dictionary of 300 pseudo-random words (the FST builder's node registry matters)
		// every field including `_id` indexes doc values (the per-document doc-value scratch state is
		// used from the very first field on)
		{
			{{N: "_id", Len: 1, DV: true, Terms: []model.Term{{T: "i0", Freq: 1}}}, {N: "zz", Len: 2, DV: true, Terms: []model.Term{{T: "p", Freq: 1}, {T: "q", Freq: 1}}}},
			{{N: "_id", Len: 1, DV: true, Terms: []model.Term{{T: "i1", Freq: 1}}}},
			{{N: "_id", Len: 1, DV: true, Terms: []model.Term{{T: "i2", Freq: 1}}}, {N: "zz", Len: 1, DV: true, Terms: []model.Term{{T: "r", Freq: 1}}}},
		},
	}
}

// wide: a batch with many fields of which most documents carry only a few (sparse documents: 2 or
// 3 of 41 fields stored / indexed / with doc values), so that per-document work that is
// proportional to the field count invites "sparse" shortcuts.
func wide(n int) []model.Doc {
	name := func(i int) string { return fmt.Sprintf("w%02d", i) }
	fld := func(i, doc int) model.Field {
		return model.Field{N: name(i), Len: 1, St: true, Val: []byte(fmt.Sprintf("v%d.%d", i, doc)), DV: i%2 == 0,
			Terms: []model.Term{{T: fmt.Sprintf("t%d", (i+doc)%3), Freq: 1, Locs: []model.Loc{{P: 1, S: 0, E: 1}}}}}
	}
	d0 := model.Doc{gen.IDField("w", 0)}
	for i := 0; i < n; i++ {
		d0 = append(d0, fld(i, 0))
	}
	d1 := model.Doc{gen.IDField("w", 1), fld(23, 1), fld(7, 1)}             // descending field ids
	d2 := model.Doc{gen.IDField("w", 2), fld(31, 2), fld(2, 2), fld(16, 2)} // mixed order
	d3 := model.Doc{gen.IDField("w", 3), fld(5, 3), fld(5, 3), fld(38, 3)}  // a repeated field
	return []model.Doc{d0, d1, d2, d3}
}

// c14Terms: two documents sharing a dictionary of n distinct pseudo-random words of 3..8 letters
// over an 8-letter alphabet (a fixed linear congruential sequence: deterministic): thousands of
// shared suffixes and prefixes, so that the FST builder's node registry - its size, its evictions -
// decides which nodes are shared.
func c14Terms(n int) []model.Doc { return c14TermsP(n, 3) }

// c14TermsP: every k-th word also occurs in the second document.
func c14TermsP(n, k int) []model.Doc {
	x := uint32(n)*2654435761 + 14
	next := func(m int) int {
		x = x*1664525 + 1013904223
		return int((x >> 16) % uint32(m))
	}
	seen := map[string]bool{}
	var t0, t1 []model.Term
	for len(t0) < n {
		b := make([]byte, 3+next(6))
		for j := range b {
			b[j] = byte('a' + next(8))
		}
		if seen[string(b)] {
			continue
		}
		seen[string(b)] = true
		t := model.Term{T: string(b), Freq: 1}
		t0 = append(t0, t)
		if len(t0)%k == 0 {
			t1 = append(t1, t)
		}
	}
	return []model.Doc{{gen.IDField("t", 0), {N: "a", Len: len(t0), Terms: t0}}, {gen.IDField("t", 1), {N: "a", Len: len(t1), Terms: t1}}}
}

// c14Big: n documents with postings, locations, a doc-value field and stored values in every third.
func c14Big(n int) []model.Doc { return c14BigNamed(n, "a", "b") }

// c14BigNamed: the same batch with other names for its two fields (same field ids, same lengths,
// other norms: the norm function of the harness depends on the field name).
func c14BigNamed(n int, fa, fb string) []model.Doc {
	b := make([]model.Doc, n)
	for i := range b {
		d := model.Doc{gen.IDField("g", i), {N: fa, Len: 2, Terms: []model.Term{{T: "x", Freq: 1 + i%2, Locs: []model.Loc{{P: 1, S: 0, E: 1}}}, {T: fmt.Sprintf("u%d", i%9), Freq: 1}}}}
		if i%2 == 0 {
			d = append(d, model.Field{N: fb, Len: 1, DV: true, Terms: []model.Term{{T: fmt.Sprintf("t%d", i%5), Freq: 1}}})
		}
		if i%3 == 0 {
			d[1].St, d[1].Val = true, []byte(fmt.Sprintf("stored-%d", i))
		}
		b[i] = d
	}
	return b
}

// composite: documents with the given plain fields and a composite field "zall" whose locations
// name the field "n".
func composite(fields []string) []model.Doc {
	var b []model.Doc
	for i := 0; i < 2; i++ {
		d := model.Doc{gen.IDField("k", i)}
		for _, f := range fields {
			d = append(d, model.Field{N: f, Len: 1, Terms: []model.Term{{T: "t", Freq: 1, Locs: []model.Loc{{P: i + 1, S: 0, E: 1}}}}})
		}
		d = append(d, model.Field{N: "zall", Len: 2, Terms: []model.Term{{T: "t", Freq: 2, Locs: []model.Loc{{F: "n", P: i + 1, S: 0, E: 1}, {F: "n", P: i + 5, S: 2, E: 3}}}}})
		b = append(b, d)
	}
	return b
}

func buildBytes(batch []model.Doc, mode uint32) ([]byte, error) {
	seg, err := build(batch, mode)
	if err != nil {
		return nil, err
	}
	b, _, err := persist(seg)
	return b, err
}

func runC14(c *explore.Ctx) {
	verifrt.DetPools = true
	defer func() { verifrt.DetPools = false; verifrt.MapOrder = nil }()
	menu := c14Menu()
	modes := []uint32{1025, 2}
	failIdx := len(menu) // pseudo entry: a build that fails
	histLen, histMenu := 3, len(menu)+1
	if c.Thorough() {
		histLen = 4
	}
	pool := ice.VerifInterimPool()

	for _, mode := range modes {
		// cold baselines
		base := make([][]byte, len(menu))
		for i, b := range menu {
			verifrt.ResetPools()
			bb, err := buildBytes(b, mode)
			if err != nil {
				envFail(c, fmt.Sprintf("C14 cold build of menu batch %d failed: %v", i, err))
				return
			}
			base[i] = bb
		}
		runOne := func(h int) {
			if h == failIdx {
				// a failing build: unknown chunk mode (fails while writing the first term)
				explore.Guard(func() { ice.VerifNew(model.SegDocs(menu[2]), model.NormCalc, 5000) })
				return
			}
			buildBytes(menu[h], mode)
		}
		scope := fmt.Sprintf("HIST(<=%d)/%d", histLen, mode)
		var idx int64
		for n := 0; n <= histLen; n++ {
			hm := histMenu
			gen.Pow(hm, n, func(hist []int) bool {
				for target := range menu {
					my := idx
					idx++
					if !c.MineIdx(scope, my) {
						continue
					}
					c.Eval()
					verifrt.ResetPools()
					for _, h := range hist {
						runOne(h)
					}
					used := verifrt.PoolLen(pool) > 0
					if used {
						c.Nontrivial()
					}
					got, err := buildBytes(menu[target], mode)
					cas := fmt.Sprintf("%s #%d history=%v (index %d = failing build) target=%d poolHeldRecycledBuilder=%v", scope, my, hist, failIdx, target, used)
					c.Sample(my, func() string { return cas })
					if err != nil {
						c.Violate(scope, my, sigOf("C14", "history", "error: "+err.Error()), err.Error(), cas)
					} else if !bytes.Equal(got, base[target]) {
						c.Violate(scope, my, "C14/history/bytes-differ", fmt.Sprintf("target %d built after history %v differs from its cold-start bytes (%d vs %d bytes, first difference at %d)", target, hist, len(got), len(base[target]), firstDiff(got, base[target])), cas)
					}
				}
				return !c.Expired()
			})
		}
		// HIST-LARGE: a recycled builder that has seen a batch spanning several 1024-document chunks
		// (per-field coders, chunk tables and size estimates grown for it) followed by small batches
		{
			bigs := [][]model.Doc{c14Big(1100), c14Terms(5000)}
			if c.Thorough() {
				bigs = append(bigs, c14Big(2100))
			}
			bigBase := make([][]byte, len(bigs))
			for i, b := range bigs {
				verifrt.ResetPools()
				bb, err := buildBytes(b, mode)
				if err != nil {
					envFail(c, fmt.Sprintf("C14 cold build of big batch %d failed: %v", i, err))
					return
				}
				bigBase[i] = bb
			}
			scope := fmt.Sprintf("HIST-LARGE/%d", mode)
			var li int64
			for bi := range bigs {
				var hists [][]int // -1 = the big batch
				hists = append(hists, []int{-1})
				for j := range menu {
					hists = append(hists, []int{-1, j})
					if c.Thorough() {
						hists = append(hists, []int{j, -1})
					}
				}
				for _, h := range hists {
					for target := -1; target < len(menu); target++ {
						my := li
						li++
						if !c.MineIdx(scope, my) {
							continue
						}
						c.Eval()
						c.Nontrivial()
						verifrt.ResetPools()
						for _, x := range h {
							if x < 0 {
								buildBytes(bigs[bi], mode)
							} else {
								buildBytes(menu[x], mode)
							}
						}
						tb, want := bigs[bi], bigBase[bi]
						if target >= 0 {
							tb, want = menu[target], base[target]
						}
						got, err := buildBytes(tb, mode)
						cas := fmt.Sprintf("%s #%d big=%d documents, history=%v (-1 = the big batch) target=%d", scope, my, len(bigs[bi]), h, target)
						if err != nil {
							c.Violate(scope, my, sigOf("C14", "history", "error: "+err.Error()), err.Error(), cas)
						} else if !bytes.Equal(got, want) {
							c.Violate(scope, my, "C14/history/bytes-differ", fmt.Sprintf("target built after history %v differs from its cold-start bytes (%d vs %d bytes, first difference at %d)", h, len(got), len(want), firstDiff(got, want)), cas)
						}
						if c.Expired() {
							return
						}
					}
				}
			}
		}
		// HIST-DOCS: two batches of thousands of documents with the same shape (field ids, field
		// lengths) but other field names - hence other norms - one after the other on the recycled
		// builder, with and without a small build in between: whatever the builder memoises per
		// (field id, length) for large batches
		if mode == 1025 {
			scope := fmt.Sprintf("HIST-DOCS/%d", mode)
			var li int64
			for _, n := range []int{3100, 4200} {
				pair := [][]model.Doc{c14BigNamed(n, "a", "b"), c14BigNamed(n, "aaa", "bbbbb")}
				for first := 0; first < 2; first++ {
					for between := 0; between < 2; between++ {
						my := li
						li++
						if !c.MineIdx(scope, my) {
							continue
						}
						c.Eval()
						c.Nontrivial()
						verifrt.ResetPools()
						want, err := buildBytes(pair[1-first], mode)
						if err != nil {
							envFail(c, "C14 HIST-DOCS cold build failed: "+err.Error())
							return
						}
						verifrt.ResetPools()
						buildBytes(pair[first], mode)
						if between == 1 {
							buildBytes(menu[2], mode)
						}
						got, err := buildBytes(pair[1-first], mode)
						cas := fmt.Sprintf("%s #%d: %d documents with fields named (a,b) / (aaa,bbbbb); history = batch %d%s, target = batch %d", scope, my, n, first, []string{"", " + a small batch"}[between], 1-first)
						if err != nil {
							c.Violate(scope, my, sigOf("C14", "history", "error: "+err.Error()), err.Error(), cas)
						} else if !bytes.Equal(got, want) {
							c.Violate(scope, my, "C14/history/bytes-differ", fmt.Sprintf("target built after the history differs from its cold-start bytes (%d vs %d bytes, first difference at %d)", len(got), len(want), firstDiff(got, want)), cas)
						}
						if c.Expired() {
							return
						}
					}
				}
			}
		}
		// HIST-HUGE: a builder first used for (or later fed) a batch of 140000 distinct terms - anything
		// the builder sizes by its first batch and keeps (hash tables, registries, arenas) - followed
		// by the menu targets and two larger dictionaries
		if mode == 1025 {
			huge := c14Terms(140000)
			// the third extra target is huge too (more than 65 536 postings lists, other words, another
			// distribution over the two documents): what the first huge batch left beyond any
			// threshold of the recycled builder meets a second batch that reaches as far
			extra := [][]model.Doc{c14Terms(5000), c14Terms(2000), c14TermsP(70001, 4), c14TermsP(135000, 5)}
			extraBase := make([][]byte, len(extra))
			for i, b := range extra {
				verifrt.ResetPools()
				bb, err := buildBytes(b, mode)
				if err != nil {
					envFail(c, fmt.Sprintf("C14 cold build of dictionary %d failed: %v", i, err))
					return
				}
				extraBase[i] = bb
			}
			scope := fmt.Sprintf("HIST-HUGE/%d", mode)
			var li int64
			for _, h := range [][]int{{-1}, {13, -1}} {
				for target := -len(extra); target < len(menu); target++ {
					my := li
					li++
					if !c.MineIdx(scope, my) {
						continue
					}
					c.Eval()
					c.Nontrivial()
					verifrt.ResetPools()
					for _, x := range h {
						if x < 0 {
							buildBytes(huge, mode)
						} else {
							buildBytes(menu[x], mode)
						}
					}
					var tb []model.Doc
					var want []byte
					if target >= 0 {
						tb, want = menu[target], base[target]
					} else {
						tb, want = extra[-target-1], extraBase[-target-1]
					}
					got, err := buildBytes(tb, mode)
					cas := fmt.Sprintf("%s #%d history=%v (-1 = a batch of 140000 distinct terms) target=%d (negative: dictionaries of 5000 / 2000 / 70001 / 135000 words)", scope, my, h, target)
					if err != nil {
						c.Violate(scope, my, sigOf("C14", "history", "error: "+err.Error()), err.Error(), cas)
					} else if !bytes.Equal(got, want) {
						c.Violate(scope, my, "C14/history/bytes-differ", fmt.Sprintf("target built after history %v differs from its cold-start bytes (%d vs %d bytes, first difference at %d)", h, len(got), len(want), firstDiff(got, want)), cas)
					}
					if c.Expired() {
						return
					}
				}
			}
		}
		// map iteration order deviations
		sites := map[string]bool{}
		verifrt.MapOrder = func(site string, n int) []int { sites[site] = true; return nil }
		for i := range menu {
			verifrt.ResetPools()
			buildBytes(menu[2], mode)
			buildBytes(menu[i], mode)
		}
		var siteList []string
		for s := range sites {
			siteList = append(siteList, s)
		}
		sort.Strings(siteList)
		scope = fmt.Sprintf("MAPORDER/%d", mode)
		idx = 0
		for _, site := range append(siteList, "*") {
			for kind := 1; kind <= 2; kind++ {
				for prior := -1; prior <= 2; prior += 3 {
					for target := range menu {
						my := idx
						idx++
						if !c.MineIdx(scope, my) {
							continue
						}
						c.Eval()
						c.Nontrivial()
						site, kind := site, kind
						verifrt.MapOrder = func(s string, n int) []int {
							if site != "*" && s != site {
								return nil
							}
							p := make([]int, n)
							for i := range p {
								if kind == 1 {
									p[i] = n - 1 - i
								} else {
									p[i] = (i + 1) % n
								}
							}
							return p
						}
						verifrt.ResetPools()
						if prior >= 0 {
							buildBytes(menu[prior], mode)
						}
						got, err := buildBytes(menu[target], mode)
						verifrt.MapOrder = nil
						cas := fmt.Sprintf("%s #%d map-range site %s iterated in %s order; prior build=%d target=%d", scope, my, site, []string{"", "reverse", "rotated"}[kind], prior, target)
						if err != nil {
							c.Violate(scope, my, sigOf("C14", "maporder", "error: "+err.Error()), err.Error(), cas)
						} else if !bytes.Equal(got, base[target]) {
							c.Violate(scope, my, "C14/maporder/bytes-differ", fmt.Sprintf("bytes differ from the sorted-order build (first difference at %d)", firstDiff(got, base[target])), cas)
						}
					}
				}
			}
		}
		c.Add("map_range_sites_reached", int64(len(siteList)))
		verifrt.MapOrder = nil
	}
	c14Schedules(c, menu)
}

func firstDiff(a, b []byte) int {
	for i := 0; i < len(a) && i < len(b); i++ {
		if a[i] != b[i] {
			return i
		}
	}
	if len(a) < len(b) {
		return len(a)
	}
	return len(b)
}

// c14Schedules: concurrent builders under the scheduler.
func c14Schedules(c *explore.Ctx, menu [][]model.Doc) {
	mode := uint32(1025)
	base := make([][]byte, len(menu))
	for i, b := range menu {
		verifrt.ResetPools()
		base[i], _ = buildBytes(b, mode)
	}
	type scen struct {
		name    string
		threads [][]int // per thread: sequence of menu batches to build
		bound   int
	}
	var scs []scen
	pick := []int{2, 3, 5, 7, 1}
	for a := 0; a < len(pick); a++ {
		for b := a; b < len(pick); b++ {
			scs = append(scs, scen{fmt.Sprintf("2x2[%d,%d|%d,%d]", pick[a], pick[b], pick[b], pick[a]), [][]int{{pick[a], pick[b]}, {pick[b], pick[a]}}, 2})
		}
	}
	scs = append(scs, scen{"3x1[2|3|5]", [][]int{{2}, {3}, {5}}, 2}, scen{"3x1[2|2|7]", [][]int{{2}, {2}, {7}}, 2}, scen{"3x2[2,1|3,2|5,2]", [][]int{{2, 1}, {3, 2}, {5, 2}}, 1})
	// builders share only package-level state and the pools: the segments they create are thread-local
	// (an object seen from two threads would still be detected and promoted)
	cfg := &verifrt.Config{AlwaysShared: map[string]bool{}, HotSites: map[string]bool{}, Written: map[string]bool{}, Promoted: map[string]bool{}}
	for si, sc := range scs {
		if c.Expired() {
			return
		}
		if c.Replay {
			if !strings.HasPrefix(c.ReplayScope, "SCHED:"+sc.name+"|") {
				continue
			}
		} else if si%c.NShards != c.Shard {
			continue
		}
		results := make([][][]byte, len(sc.threads))
		errs := make([]error, len(sc.threads))
		mk := func() []func() {
			bodies := make([]func(), len(sc.threads))
			for ti, seq := range sc.threads {
				ti, seq := ti, seq
				results[ti] = make([][]byte, len(seq))
				errs[ti] = nil
				bodies[ti] = func() {
					for k, bi := range seq {
						b, err := buildBytes(menu[bi], mode)
						if err != nil {
							errs[ti] = err
							return
						}
						results[ti][k] = b
					}
				}
			}
			return bodies
		}
		check := func(x *verifrt.Sched) {
			extra := c14CfgJSON(cfg) // the scheduling points this execution ran with
			for s := range x.NewHot {
				cfg.HotSites[s] = true
			}
			for k := range x.NewWritten {
				if !cfg.Written[k] {
					cfg.Written[k] = true
					c.R.Notes = append(c.R.Notes, "written shared location (builders): "+k)
				}
			}
			for k := range x.NewPromoted {
				if !cfg.Promoted[k] {
					cfg.Promoted[k] = true
					c.R.Notes = append(c.R.Notes, "type promoted to shared (builders): "+k)
				}
			}
			c.Eval()
			c.R.Distinct++
			c.R.Transitions += int64(len(x.Points))
			if x.Preemptions() > 0 {
				c.Nontrivial()
			}
			sched := scheduleString(x.Choices())
			scope := "SCHED:" + sc.name + "|" + sched
			trace := func() string {
				t := x.Trace
				if len(t) > 60 {
					t = append(append([]string{}, t[:30]...), append([]string{"..."}, t[len(t)-30:]...)...)
				}
				return fmt.Sprintf("scenario %s schedule [%s] interleaving: %s", sc.name, sched, strings.Join(t, " "))
			}
			for _, p := range x.Panics() {
				c.ViolateX(scope, 0, "C14/schedule/panic", fmt.Sprintf("T%d panicked at %s: %v", p.Tid, p.Site, p.Val), trace(), extra)
				return
			}
			if x.Deadlock != "" {
				c.ViolateX(scope, 0, "C14/schedule/deadlock", x.Deadlock, trace(), extra)
				return
			}
			for ti, seq := range sc.threads {
				if errs[ti] != nil {
					c.ViolateX(scope, 0, "C14/schedule/error", fmt.Sprintf("T%d: %v", ti, errs[ti]), trace(), extra)
					return
				}
				for k, bi := range seq {
					if !bytes.Equal(results[ti][k], base[bi]) {
						c.ViolateX(scope, 0, "C14/schedule/bytes-differ", fmt.Sprintf("T%d build #%d (menu batch %d) differs from its solo cold-start bytes (first difference at %d)", ti, k, bi, firstDiff(results[ti][k], base[bi])), trace(), extra)
						return
					}
				}
			}
			for _, r := range x.DistinctRaces() {
				c.ViolateX(scope, 0, "C14/schedule/race/"+r.Key, "unsynchronised access: "+r.String(), trace(), extra)
				return
			}
		}
		if c.Replay {
			c14LoadCfg(cfg, c.ReplayExtra)
			sched := parseSchedule(c.ReplayScope[len("SCHED:"+sc.name)+1:])
			x := verifrt.Run(mk(), sched, cfg)
			check(x)
			continue
		}
		for bound := 0; bound <= sc.bound; bound++ {
			before := len(cfg.HotSites) + len(cfg.Written) + len(cfg.Promoted)
			res := verifrt.Explore(mk, verifrt.ExploreOpts{Bound: bound, Cfg: cfg, Expired: c.Expired}, check)
			if res.Capped {
				c.R.Capped = "deadline reached inside " + sc.name
				return
			}
			if len(cfg.HotSites)+len(cfg.Written)+len(cfg.Promoted) != before {
				bound--
				continue
			}
		}
		c.R.States++
		c.Count("schedule_scenarios_completed")
	}
}

func c14CfgJSON(cfg *verifrt.Config) string {
	save := rtCfg
	rtCfg = cfg
	defer func() { rtCfg = save }()
	return cfgJSON()
}

func c14LoadCfg(cfg *verifrt.Config, s string) {
	save := rtCfg
	rtCfg = cfg
	defer func() { rtCfg = save }()
	loadCfgJSON(s)
}
