//go:build !verifinstr

package props

import "verifharness/explore"

// C09 and C14 need the instrumented build (bin/check.sh builds it with the overlay produced by
// vinstr and the build tag verifinstr); in the plain binary they are placeholders.
func init() {
	for _, id := range []string{"C09", "C14"} { // C12 also runs on the plain build (without its poll sweep)
		id := id
		register(&explore.Prop{ID: id, Level: levelMC, Instr: true, Run: func(c *explore.Ctx) {
			c.R.Error = id + " needs the instrumented build (use bin/check.sh)"
		}})
	}
}
