package props

import (
	"fmt"

	"github.com/RoaringBitmap/roaring"
	segment "github.com/blugelabs/bluge_segment_api"

	"verifharness/explore"
	"verifharness/gen"
	"verifharness/model"
)

func init() {
	register(&explore.Prop{
		ID: "C06", Level: levelMC, Explorer: "E1 input-space enumerator + E2 path mode (visit histories)",
		Rule: "STORED-S (<=3 docs x 13 stored configurations) in forms built / loaded-mem / loaded-file / merged by block copy / merged by re-encode (drops; differing field lists): every doc number plus {Count, Count+1, Count+127, Count+128, 2^32}, every early-stop index; STORED-X (130 stored values in one document, a 20 000-byte value, stored field ids >= 128, the EXTREME batches incl. a 1.2 MiB value and a 128-document block of 1.4 MiB); COPY-CROSS (two-segment block-copy merges whose merged count crosses a multiple of 128 inside a source block); REENC-CROSS (one- and two-segment re-encoding merges - deletions early in a segment, differing field lists - whose input numbering is shifted against the output numbering across a 128-document boundary); STORED-B (130 docs in two blocks; length of doc 0 and doc 128 in 0..24, six record shapes for the last record of each block): every doc of interest and every sequence of <=3 visits over {0,127,128,129} on a freshly loaded segment (the decompressed block is cached, so a visit depends on earlier ones), also after merge; " +
			"further families: COPY-CROSS, REENC-CROSS, COPY-BIG (block-copy merges with 1.5..17 MiB pending in an output block), the ZOO (incl. stored-prefix-widths); distinct = (segment, form, visit sequence); non-trivial = visited document has >=1 stored value, sequences: touches >=2 different blocks",
		Assumptions: commonAssumptions, Budget: qBudget, Run: runC06,
	})
}

func visitStored(seg segment.Segment, n uint64, stopAfter int) (kv []model.KV, calls int, err error) {
	msg := explore.Guard(func() {
		err = seg.VisitStoredFields(n, func(f string, v []byte) bool {
			calls++
			kv = append(kv, model.KV{F: f, V: string(v)})
			return stopAfter < 0 || calls <= stopAfter
		})
	})
	if msg != "" {
		err = fmt.Errorf("%s", msg)
	}
	return
}

func kvEqual(a, b []model.KV) bool {
	if len(a) != len(b) {
		return false
	}
	for i := range a {
		if a[i] != b[i] {
			return false
		}
	}
	return true
}

// checkAllDocs visits every document (and out-of-range numbers, and every early stop).
func checkAllDocs(c *explore.Ctx, scope string, idx int64, seg segment.Segment, want *model.LSeg, form, cas string, earlyStops bool) bool {
	n := uint64(len(want.Docs))
	for d := uint64(0); d < n; d++ {
		w := want.StoredOf(int(d))
		got, _, err := visitStored(seg, d, -1)
		if err != nil {
			c.Violate(scope, idx, sigOf("C06", form, "error: "+err.Error()), fmt.Sprintf("doc %d: %v", d, err), cas)
			return false
		}
		if !kvEqual(got, w) {
			c.Violate(scope, idx, "C06/"+form+"/wrong/values", fmt.Sprintf("doc %d: got %.600q want %.600q", d, got, w), cas)
			return false
		}
		if earlyStops {
			// every early-stop index, ending with a stop after the FIRST value: the visit of the next
			// document then follows a visit that left undelivered values behind
			stops := make([]int, 0, len(w)+1)
			for j := 0; j < len(w); j++ {
				stops = append(stops, j)
			}
			if len(w) >= 2 {
				stops = append(stops, 0)
			}
			for _, j := range stops {
				got, calls, err := visitStored(seg, d, j)
				if err != nil || calls != j+1 || !kvEqual(got, w[:j+1]) {
					c.Violate(scope, idx, "C06/"+form+"/early-stop", fmt.Sprintf("doc %d stop after %d: %d callbacks %.600q err %v", d, j, calls, got, err), cas)
					return false
				}
			}
		}
	}
	for _, d := range []uint64{n, n + 1, n + 127, n + 128, 1 << 32} {
		got, calls, err := visitStored(seg, d, -1)
		if err != nil || calls != 0 {
			c.Violate(scope, idx, "C06/"+form+"/out-of-range", fmt.Sprintf("doc %d of %d: %d callbacks %q err %v", d, n, calls, got, err), cas)
			return false
		}
	}
	return true
}

// storedForms derives the forms of a built segment: name -> (segment, model, cleanup).
type formSeg struct {
	name  string
	seg   segment.Segment
	want  *model.LSeg
	bytes []byte
	close func()
}

func storedForms(c *explore.Ctx, scope string, idx int64, batch []model.Doc, cas string, withFile bool) []formSeg {
	ls := model.Build(batch)
	seg, err := build(batch, 1025)
	if err != nil {
		c.Violate(scope, idx, sigOf("C06", "build", "error: "+err.Error()), err.Error(), cas)
		return nil
	}
	out := []formSeg{{name: "built", seg: seg, want: ls}}
	b, _, err := persist(seg)
	if err != nil {
		c.Violate(scope, idx, sigOf("C06", "persist", "error: "+err.Error()), err.Error(), cas)
		return out
	}
	out[0].bytes = b
	if l, err := loadMem(b); err == nil {
		out = append(out, formSeg{name: "loaded-mem", seg: l, want: ls, bytes: b})
	} else {
		c.Violate(scope, idx, sigOf("C06", "load-mem", "error: "+err.Error()), err.Error(), cas)
	}
	if withFile {
		if l, cl, err := loadFile(b); err == nil {
			out = append(out, formSeg{name: "loaded-file", seg: l, want: ls, close: cl, bytes: b})
		} else {
			c.Violate(scope, idx, sigOf("C06", "load-file", "error: "+err.Error()), err.Error(), cas)
		}
	}
	if len(batch) == 0 {
		return out
	}
	// merged by block copy: single input, identical fields, no drops
	if mb, _, _, err := merge([]segment.Segment{seg}, []*roaring.Bitmap{nil}, 1025); err == nil {
		if l, err := loadMem(mb); err == nil {
			ml, _ := model.Merge([]*model.LSeg{ls}, []map[uint64]bool{nil})
			out = append(out, formSeg{name: "merged-copy", seg: l, want: ml, bytes: mb})
		} else {
			c.Violate(scope, idx, sigOf("C06", "merged-copy-load", "error: "+err.Error()), err.Error(), cas)
		}
	} else {
		c.Violate(scope, idx, sigOf("C06", "merge-copy", "error: "+err.Error()), err.Error(), cas)
	}
	// merged by re-encode: a partner with another field list in front, and doc 0 dropped when there are >= 2 docs
	partner := []model.Doc{{{N: "q", St: true, Val: []byte("partner")}}}
	pseg, err := build(partner, 1025)
	if err != nil {
		panic(err)
	}
	var drop *roaring.Bitmap
	var ds map[uint64]bool
	if len(batch) >= 2 {
		drop, ds = bitmapOf(0), map[uint64]bool{0: true}
	}
	if mb, _, _, err := merge([]segment.Segment{pseg, seg}, []*roaring.Bitmap{nil, drop}, 1025); err == nil {
		if l, err := loadMem(mb); err == nil {
			ml, _ := model.Merge([]*model.LSeg{model.Build(partner), ls}, []map[uint64]bool{nil, ds})
			out = append(out, formSeg{name: "merged-reencode", seg: l, want: ml, bytes: mb})
		} else {
			c.Violate(scope, idx, sigOf("C06", "merged-reencode-load", "error: "+err.Error()), err.Error(), cas)
		}
	} else {
		c.Violate(scope, idx, sigOf("C06", "merge-reencode", "error: "+err.Error()), err.Error(), cas)
	}
	return out
}

// last-record shapes for STORED-B (record = metaLen, dataLen, meta triples, data)
func lastRecordDoc(kind int) model.Doc {
	switch kind {
	case 0: // no stored field: 2-byte record
		return model.Doc{}
	case 1: // one empty value: 5 bytes
		return model.Doc{{N: "a", St: true, Val: []byte{}}}
	case 2: // one 1-byte value: 6 bytes
		return model.Doc{{N: "a", St: true, Val: []byte("1")}}
	case 3: // 4-byte value: 9 bytes
		return model.Doc{{N: "a", St: true, Val: []byte("4444")}}
	case 4: // 5-byte value: 10 bytes
		return model.Doc{{N: "a", St: true, Val: []byte("55555")}}
	case 5: // 6-byte value: 11 bytes
		return model.Doc{{N: "a", St: true, Val: []byte("666666")}}
	}
	panic("last kind")
}

func storedBBatch(pad0, pad1, last0, last1 int) []model.Doc {
	pad := func(n int, seed byte) []byte {
		b := make([]byte, n)
		for i := range b {
			b[i] = seed + byte(i*7%13) // not trivially compressible to a run
		}
		return b
	}
	// Block 0 = docs 0..127, block 1 = docs 128,129. Middle documents store nothing (2-byte
	// records) so that both decompressed blocks have nearly the same size:
	//   block0 = 126*2 + (5+pad0) + rec(127)      block1 = (7+250+pad1) + rec(129)
	// and the size difference sweeps -33..+33 around 0 - the region in which the reused
	// decompression buffer's capacity (zstd over-allocates by a few bytes) is smaller than
	// "offset of the last record + 10".
	batch := make([]model.Doc, 130)
	for i := range batch {
		batch[i] = model.Doc{}
	}
	batch[0] = model.Doc{{N: "a", St: true, Val: pad(pad0, 'k')}}
	batch[128] = model.Doc{{N: "a", St: true, Val: pad(250+pad1, 'r')}}
	batch[127] = lastRecordDoc(last0)
	batch[129] = lastRecordDoc(last1)
	return batch
}

func runC06(c *explore.Ctx) {
	// STORED-S
	gen.StoredS(3, func(idx int64, batch []gen.Doc, cfgs []int) bool {
		scope := "STORED-S"
		if !c.MineIdx(scope, idx) {
			return true
		}
		c.Eval()
		cas := fmt.Sprintf("%s #%d cfgs=%v %s", scope, idx, cfgs, model.BatchString(batch))
		c.Sample(idx, func() string { return cas })
		for _, d := range batch {
			for _, f := range d {
				if f.St {
					c.Nontrivial()
					goto counted
				}
			}
		}
	counted:
		for _, f := range storedForms(c, scope, idx, batch, cas, true) {
			checkAllDocs(c, scope, idx, f.seg, f.want, f.name, cas+" form="+f.name, true)
			c.Count("form_" + f.name)
			if f.close != nil {
				f.close()
			}
		}
		return !c.Expired()
	})
	// MIX batches too (stored values next to postings/doc values)
	gen.Mix(8, 3, "m", func(idx int64, batch []gen.Doc, kinds []int) bool {
		scope := "MIX(8,3)"
		if !c.MineIdx(scope, idx) {
			return true
		}
		c.Eval()
		c.Nontrivial()
		cas := fmt.Sprintf("%s #%d %s", scope, idx, model.BatchString(batch))
		for _, f := range storedForms(c, scope, idx, batch, cas, false) {
			checkAllDocs(c, scope, idx, f.seg, f.want, f.name, cas+" form="+f.name, true)
		}
		return !c.Expired()
	})
	// STORED-X: extreme records: 130 stored values in one document, a 20 000-byte value (3-byte
	// varints for lengths and offsets), stored fields with ids >= 128
	{
		long := make([]byte, 20000)
		for i := range long {
			long[i] = byte('a' + i%26)
		}
		var many model.Doc
		for k := 0; k < 130; k++ {
			many = append(many, model.Field{N: "a", St: true, Val: []byte(fmt.Sprintf("value-%03d", k))})
		}
		var wide model.Doc
		for f := 0; f < 140; f++ {
			wide = append(wide, model.Field{N: fmt.Sprintf("f%03d", f), St: f%2 == 0, Val: []byte(fmt.Sprintf("w%d", f)), Len: 1, Terms: []model.Term{{T: "t", Freq: 1}}})
		}
		xs := [][]model.Doc{
			{many, {{N: "a", St: true, Val: []byte("after")}}},
			{{{N: "a", St: true, Val: long}, {N: "z", St: true, Val: []byte("tail-after-the-long-value")}}, {{N: "z", St: true, Val: long[:16384]}}},
			{wide, wide[:70]},
		}
		for _, e := range gen.Extremes() {
			xs = append(xs, e.Batch) // incl. 128-document blocks larger than 1 MiB
		}
		for xi, batch := range xs {
			scope := "STORED-X"
			if !c.MineIdx(scope, int64(xi)) {
				continue
			}
			c.Eval()
			c.Nontrivial()
			cas := fmt.Sprintf("STORED-X #%d", xi)
			for _, f := range storedForms(c, scope, int64(xi), batch, cas, true) {
				checkAllDocs(c, scope, int64(xi), f.seg, f.want, f.name, cas+" form="+f.name, true)
				if f.close != nil {
					f.close()
				}
			}
		}
	}
	// COPY-CROSS: block-copy merges of two segments with identical field lists and no deletions whose
	// sizes make the merged document count cross a multiple of 128 inside a source block
	{
		sizes := [][2]int{{100, 100}, {127, 2}, {1, 128}, {130, 130}, {64, 65}, {128, 129}, {255, 3}}
		for si, sz := range sizes {
			scope := "COPY-CROSS"
			if !c.MineIdx(scope, int64(si)) {
				continue
			}
			c.Eval()
			c.Nontrivial()
			mk := func(tag string, n int) []model.Doc {
				b := make([]model.Doc, n)
				for i := range b {
					b[i] = model.Doc{gen.IDField(tag, i), {N: "a", St: true, Val: []byte(fmt.Sprintf("%s-stored-%d", tag, i)), Len: 1, Terms: []model.Term{{T: "x", Freq: 1}}}}
				}
				return b
			}
			b0, b1 := mk("p", sz[0]), mk("q", sz[1])
			cas := fmt.Sprintf("COPY-CROSS #%d sizes=%v", si, sz)
			s0, err0 := build(b0, 1025)
			s1, err1 := build(b1, 1025)
			if err0 != nil || err1 != nil {
				c.Violate(scope, int64(si), "C06/copy-cross/build", fmt.Sprint(err0, err1), cas)
				continue
			}
			for _, order := range [][2]int{{0, 1}, {1, 0}} {
				segs := []segment.Segment{s0, s1}
				lss := []*model.LSeg{model.Build(b0), model.Build(b1)}
				mb, _, _, err := merge([]segment.Segment{segs[order[0]], segs[order[1]]}, []*roaring.Bitmap{nil, nil}, 1025)
				if err != nil {
					c.Violate(scope, int64(si), sigOf("C06", "copy-cross-merge", "error: "+err.Error()), err.Error(), cas)
					continue
				}
				l, err := loadMem(mb)
				if err != nil {
					c.Violate(scope, int64(si), sigOf("C06", "copy-cross-load", "error: "+err.Error()), err.Error(), cas)
					continue
				}
				want, _ := model.Merge([]*model.LSeg{lss[order[0]], lss[order[1]]}, []map[uint64]bool{nil, nil})
				checkAllDocs(c, scope, int64(si), l, want, "merged-copy-two-segments", cas, false)
			}
		}
	}
	// COPY-BIG: block-copy merges in which the records pending in the output block reach 1.5 ... 17 MiB
	// (one huge value, or 127 documents of 140 KiB) while the merged document count is not a multiple
	// of 128, followed by more documents; both orders
	{
		type big struct {
			n, size int
		}
		cases := []big{{2, 3 << 19}, {2, 3 << 20}, {2, 5 << 20}, {2, 9 << 20}, {2, 17 << 20}, {127, 140 << 10}}
		for si, bc := range cases {
			scope := "COPY-BIG"
			if !c.MineIdx(scope, int64(si)) || c.Expired() {
				continue
			}
			c.Eval()
			c.Nontrivial()
			b0 := make([]model.Doc, bc.n)
			for i := range b0 {
				v := []byte(fmt.Sprintf("p-stored-%d", i))
				if i == 0 || bc.n > 2 {
					v = make([]byte, bc.size)
					for j := range v {
						v[j] = byte('a' + (j/5+j/4093+i)%26)
					}
				}
				b0[i] = model.Doc{gen.IDField("p", i), {N: "a", St: true, Val: v, Len: 1, Terms: []model.Term{{T: "x", Freq: 1}}}}
			}
			b1 := make([]model.Doc, 3)
			for i := range b1 {
				b1[i] = model.Doc{gen.IDField("q", i), {N: "a", St: true, Val: []byte(fmt.Sprintf("q-stored-%d", i)), Len: 1, Terms: []model.Term{{T: "x", Freq: 1}}}}
			}
			cas := fmt.Sprintf("COPY-BIG #%d: %d documents with stored values of %d bytes, then 3 small documents", si, bc.n, bc.size)
			s0, err0 := build(b0, 1025)
			s1, err1 := build(b1, 1025)
			if err0 != nil || err1 != nil {
				c.Violate(scope, int64(si), "C06/copy-big/build", fmt.Sprint(err0, err1), cas)
				continue
			}
			segs := []segment.Segment{s0, s1}
			lss := []*model.LSeg{model.Build(b0), model.Build(b1)}
			for _, order := range [][]int{{0, 1}, {1, 0}, {1, 0, 1}} {
				var in []segment.Segment
				var ls []*model.LSeg
				for _, o := range order {
					in, ls = append(in, segs[o]), append(ls, lss[o])
				}
				mb, _, _, err := merge(in, make([]*roaring.Bitmap, len(in)), 1025)
				if err != nil {
					c.Violate(scope, int64(si), sigOf("C06", "copy-big-merge", "error: "+err.Error()), err.Error(), cas)
					continue
				}
				l, err := loadMem(mb)
				if err != nil {
					c.Violate(scope, int64(si), sigOf("C06", "copy-big-load", "error: "+err.Error()), err.Error(), cas)
					continue
				}
				want, _ := model.Merge(ls, make([]map[uint64]bool, len(in)))
				checkAllDocs(c, scope, int64(si), l, want, "merged-copy-big", fmt.Sprintf("%s order=%v", cas, order), false)
			}
		}
	}
	// REENC-CROSS: re-encoding merges (deletions, or differing field lists) whose input numbering is
	// shifted against the output numbering while a 128-document block boundary is crossed
	{
		sizes := [][2]int{{200, 0}, {100, 100}, {127, 3}, {3, 128}, {130, 130}, {129, 2}}
		type variant struct {
			name   string
			drops  [2][]uint32
			fields [2]string
		}
		variants := []variant{
			{"drop-early-in-first", [2][]uint32{{5}, nil}, [2]string{"a", "a"}},
			{"drop-first-of-second", [2][]uint32{nil, {0}}, [2]string{"a", "a"}},
			{"drop-two-in-each", [2][]uint32{{0, 1}, {1, 2}}, [2]string{"a", "a"}},
			{"differing-fields", [2][]uint32{nil, nil}, [2]string{"a", "b"}},
			{"differing-fields+drop", [2][]uint32{{2}, nil}, [2]string{"b", "a"}},
		}
		var ri int64
		for _, sz := range sizes {
			for _, v := range variants {
				my := ri
				ri++
				scope := "REENC-CROSS"
				if !c.MineIdx(scope, my) {
					continue
				}
				c.Eval()
				mk := func(tag, field string, n int) []model.Doc {
					b := make([]model.Doc, n)
					for i := range b {
						b[i] = model.Doc{gen.IDField(tag, i), {N: field, St: true, Val: []byte(fmt.Sprintf("%s-stored-%d", tag, i)), Len: 1, Terms: []model.Term{{T: "x", Freq: 1}}}}
					}
					return b
				}
				cas := fmt.Sprintf("REENC-CROSS #%d sizes=%v %s", my, sz, v.name)
				var segs []segment.Segment
				var lss []*model.LSeg
				var drops []*roaring.Bitmap
				var dsets []map[uint64]bool
				bad := false
				for k := 0; k < 2; k++ {
					if sz[k] == 0 {
						continue
					}
					b := mk([]string{"p", "q"}[k], v.fields[k], sz[k])
					sg, err := build(b, 1025)
					if err != nil {
						c.Violate(scope, my, "C06/reenc-cross/build", err.Error(), cas)
						bad = true
						break
					}
					segs = append(segs, sg)
					lss = append(lss, model.Build(b))
					var bm *roaring.Bitmap
					ds := map[uint64]bool{}
					for _, d := range v.drops[k] {
						if int(d) < sz[k] {
							if bm == nil {
								bm = roaring.New()
							}
							bm.Add(d)
							ds[uint64(d)] = true
						}
					}
					drops = append(drops, bm)
					dsets = append(dsets, ds)
				}
				if bad {
					continue
				}
				c.Nontrivial()
				mb, _, _, err := merge(segs, drops, 1025)
				if err != nil {
					c.Violate(scope, my, sigOf("C06", "reenc-cross-merge", "error: "+err.Error()), err.Error(), cas)
					continue
				}
				l, err := loadMem(mb)
				if err != nil {
					c.Violate(scope, my, sigOf("C06", "reenc-cross-load", "error: "+err.Error()), err.Error(), cas)
					continue
				}
				want, _ := model.Merge(lss, dsets)
				checkAllDocs(c, scope, my, l, want, "merged-reencode-two-segments", cas, false)
			}
		}
	}
	// STORED-B
	pad1s := []int{0, 12, 24}
	if c.Thorough() {
		pad1s = nil
		for i := 0; i <= 24; i++ {
			pad1s = append(pad1s, i)
		}
	}
	interest := []uint64{0, 127, 128, 129}
	var seqs [][]uint64
	for n := 1; n <= 3; n++ {
		gen.Pow(4, n, func(v []int) bool {
			s := make([]uint64, n)
			for i, x := range v {
				s[i] = interest[x]
			}
			seqs = append(seqs, s)
			return true
		})
	}
	var idx int64
	for pad0 := 0; pad0 <= 24; pad0++ {
		for _, pad1 := range pad1s {
			for last0 := 0; last0 < 6; last0++ {
				for last1 := 0; last1 < 6; last1++ {
					scope := "STORED-B"
					my := idx
					idx++
					if !c.MineIdx(scope, my) {
						continue
					}
					if c.Expired() {
						return
					}
					c.Eval()
					cas := fmt.Sprintf("STORED-B #%d pad0=%d pad1=%d last0=%d last1=%d", my, pad0, pad1, last0, last1)
					c.Sample(my, func() string { return cas })
					batch := storedBBatch(pad0, pad1, last0, last1)
					forms := storedForms(c, scope, my, batch, cas, false)
					for _, f := range forms {
						if !checkAllDocs(c, scope, my, f.seg, f.want, f.name, cas+" form="+f.name, false) {
							continue
						}
						if f.bytes == nil || f.name == "built" {
							continue
						}
						// every visit sequence on a freshly loaded copy (cold cache)
						nDocs := uint64(len(f.want.Docs))
						for _, sq := range seqs {
							l, err := loadMem(f.bytes)
							if err != nil {
								break
							}
							c.R.Transitions += int64(len(sq))
							c.R.States++
							blocks := map[uint64]bool{}
							for _, d := range sq {
								if d >= nDocs {
									d = nDocs - 1
								}
								blocks[d/128] = true
								got, _, err := visitStored(l, d, -1)
								w := f.want.StoredOf(int(d))
								if err != nil {
									c.Violate(scope, my, sigOf("C06", f.name+"-sequence", "error: "+err.Error()), fmt.Sprintf("sequence %v doc %d: %v", sq, d, err), cas+" form="+f.name)
									break
								}
								if !kvEqual(got, w) {
									c.Violate(scope, my, "C06/"+f.name+"-sequence/wrong/values", fmt.Sprintf("sequence %v doc %d: got %q want %q", sq, d, got, w), cas+" form="+f.name)
									break
								}
							}
							if len(blocks) >= 2 {
								c.Count("sequences_touching_two_blocks")
							}
						}
					}
					c.Nontrivial()
				}
			}
		}
	}
	zooEach(c, true, func(idx int64, z *zooSeg) { zooStored(c, idx, z) })
}
