package props

import (
	"bytes"
	"fmt"
	"sort"
	"strings"

	segment "github.com/blugelabs/bluge_segment_api"

	"verifharness/explore"
	"verifharness/gen"
	"verifharness/model"
)

func init() {
	register(&explore.Prop{
		ID: "C08", Level: levelMC, Explorer: "E1 input-space enumerator + E2 (iteration orders)",
		Rule: "segments: TERMSET = every assignment of the 5 alphabet terms to {absent, doc0, doc1, both} for field a (4^5), built and self-merged (three-input merges over 4 kinds too: enumerator ties; terms of exactly one doc become 1-hit: every pattern of 1-hit/general/absent over consecutive terms), plus every MERGE(k=2) output with deletions; per segment and field (known and unknown): every [start,end) with bounds nil or a non-empty key from a 12-key set lying on/between/before/after the terms (start<=end), x automata {none, match-all, each prefix, each exact term, contains-byte}; entries, order, entry counts, Contains and PostingsList compared with the model; " +
			"distinct = (segment, field, range, automaton); non-trivial = dictionary has >=2 terms and the restriction keeps >=1 and drops >=1; counters.general_after_1hit = iterations meeting a general term right after a 1-hit term",
		Assumptions: commonAssumptions, Budget: qBudget, Run: runC08,
	})
}

// ---- automata written against segment.Automaton ----

type prefixAut struct{ p string }

func (a prefixAut) Start() int                 { return 0 }
func (a prefixAut) IsMatch(s int) bool         { return s == len(a.p) }
func (a prefixAut) CanMatch(s int) bool        { return s <= len(a.p) }
func (a prefixAut) WillAlwaysMatch(s int) bool { return s == len(a.p) }
func (a prefixAut) Accept(s int, b byte) int {
	if s == len(a.p) {
		return s
	}
	if s < len(a.p) && a.p[s] == b {
		return s + 1
	}
	return len(a.p) + 1
}

type exactAut struct{ t string }

func (a exactAut) Start() int                 { return 0 }
func (a exactAut) IsMatch(s int) bool         { return s == len(a.t) }
func (a exactAut) CanMatch(s int) bool        { return s <= len(a.t) }
func (a exactAut) WillAlwaysMatch(s int) bool { return false }
func (a exactAut) Accept(s int, b byte) int {
	if s < len(a.t) && a.t[s] == b {
		return s + 1
	}
	return len(a.t) + 1
}

type containsAut struct{ b byte }

func (a containsAut) Start() int                 { return 0 }
func (a containsAut) IsMatch(s int) bool         { return s == 1 }
func (a containsAut) CanMatch(s int) bool        { return true }
func (a containsAut) WillAlwaysMatch(s int) bool { return s == 1 }
func (a containsAut) Accept(s int, b byte) int {
	if s == 1 || b == a.b {
		return 1
	}
	return 0
}

type allAut struct{}

func (allAut) Start() int               { return 0 }
func (allAut) IsMatch(int) bool         { return true }
func (allAut) CanMatch(int) bool        { return true }
func (allAut) WillAlwaysMatch(int) bool { return true }
func (allAut) Accept(int, byte) int     { return 0 }

type autSpec struct {
	name string
	a    segment.Automaton
	pred func(string) bool
}

func automata(full bool) []autSpec {
	out := []autSpec{
		{"none", nil, func(string) bool { return true }},
		{"all", allAut{}, func(string) bool { return true }},
	}
	prefixes := []string{"", "y", "y\x00", "x", "\xff", "q"}
	exacts := []string{"", "y", "y\x00\xfe", "q"}
	if !full {
		prefixes = []string{"y", "q"}
		exacts = []string{"y"}
	}
	for _, p := range prefixes {
		p := p
		out = append(out, autSpec{fmt.Sprintf("prefix(%q)", p), prefixAut{p}, func(s string) bool { return strings.HasPrefix(s, p) }})
	}
	for _, t := range exacts {
		t := t
		out = append(out, autSpec{fmt.Sprintf("exact(%q)", t), exactAut{t}, func(s string) bool { return s == t }})
	}
	out = append(out, autSpec{"contains(0x00)", containsAut{0}, func(s string) bool { return strings.IndexByte(s, 0) >= 0 }})
	if full {
		out = append(out, autSpec{"contains('y')", containsAut{'y'}, func(s string) bool { return strings.IndexByte(s, 'y') >= 0 }})
	}
	return out
}

// range bounds: nil or a non-empty key on / strictly between / before / after the alphabet terms
var boundKeys = []string{"\x00", "w", "x", "x\x00", "xa", "y", "y\x00", "y\x00\xfe", "y\x00\xff", "z", "\xff", "\xff\x00"}

type rangeSpec struct{ start, end []byte }

func (r rangeSpec) String() string {
	f := func(b []byte) string {
		if b == nil {
			return "nil"
		}
		return fmt.Sprintf("%q", b)
	}
	return "[" + f(r.start) + "," + f(r.end) + ")"
}

func ranges(full bool) []rangeSpec {
	keys := boundKeys
	if !full {
		keys = []string{"x", "y", "y\x00\xfe", "z"}
	}
	out := []rangeSpec{{nil, nil}}
	for _, k := range keys {
		out = append(out, rangeSpec{[]byte(k), nil}, rangeSpec{nil, []byte(k)})
	}
	for i, s := range keys {
		for _, e := range keys[i:] {
			out = append(out, rangeSpec{[]byte(s), []byte(e)})
		}
	}
	return out
}

func inRange(t string, r rangeSpec) bool {
	if r.start != nil && bytes.Compare([]byte(t), r.start) < 0 {
		return false
	}
	if r.end != nil && bytes.Compare([]byte(t), r.end) >= 0 {
		return false
	}
	return true
}

type dictEntry struct {
	term  string
	count uint64
}

// checkDict runs every (range, automaton) iteration of one field's dictionary.
func checkDict(c *explore.Ctx, scope string, idx *int64, seg segment.Segment, want *model.LSeg, field string, oneHit map[string]bool, rs []rangeSpec, as []autSpec, cas string) {
	wantTerms := want.Terms(field)
	wantCount := map[string]uint64{}
	for _, t := range wantTerms {
		wantCount[t] = uint64(len(want.Postings(field, t)))
	}
	var dict segment.Dictionary
	var err error
	msg := explore.Guard(func() { dict, err = seg.Dictionary(field) })
	if msg != "" || err != nil || dict == nil {
		*idx++
		c.Eval()
		c.Violate(scope, *idx-1, sigOf("C08", "dictionary", "error: "+errText(msg, err)), errText(msg, err), cas+" field="+field)
		return
	}
	// two live iterators on the one Dictionary, stepped alternately (the second created while the
	// first is mid-way): each must enumerate the whole dictionary on its own - on the fresh Dictionary
	// and again after all the iterators of the sweep below have been exhausted on it
	ok2 := true
	twoIterators := func() {
		my := *idx
		*idx++
		if !c.Replay || my == c.ReplayIndex {
			c.Eval()
			c.R.Distinct++
			var all []dictEntry
			for _, t := range wantTerms {
				all = append(all, dictEntry{t, wantCount[t]})
			}
			var g1, g2 []dictEntry
			msg := explore.Guard(func() {
				it1 := dict.Iterator(nil, nil, nil)
				step := func(it segment.DictionaryIterator, out *[]dictEntry) bool {
					e, err2 := it.Next()
					if err2 != nil {
						err = err2
						return false
					}
					if e == nil {
						return false
					}
					*out = append(*out, dictEntry{e.Term(), e.Count()})
					return len(*out) <= 1000
				}
				more1 := step(it1, &g1)
				it2 := dict.Iterator(nil, nil, nil)
				more2 := true
				for more1 || more2 {
					if more2 {
						more2 = step(it2, &g2)
					}
					if more1 {
						more1 = step(it1, &g1)
					}
				}
			})
			if msg != "" || err != nil || fmt.Sprint(g1) != fmt.Sprint(all) || fmt.Sprint(g2) != fmt.Sprint(all) {
				c.Violate(scope, my, sigOf("C08", "two-iterators", "wrong: "+errText(msg, err)), fmt.Sprintf("two iterators stepped alternately: first %v second %v want %v %s", g1, g2, all, errText(msg, err)), cas+" field="+field)
				ok2 = false
				return
			}
		}
	}
	twoIterators()
	if !ok2 {
		return
	}
	defer twoIterators()
	for _, r := range rs {
		for _, a := range as {
			my := *idx
			*idx++
			if c.Replay && my != c.ReplayIndex {
				continue
			}
			c.Eval()
			c.R.Distinct++
			var exp []dictEntry
			for _, t := range wantTerms {
				if inRange(t, r) && a.pred(t) {
					exp = append(exp, dictEntry{t, wantCount[t]})
				}
			}
			if len(wantTerms) >= 2 && len(exp) >= 1 && len(exp) < len(wantTerms) {
				c.Nontrivial()
			}
			for i := 1; i < len(exp); i++ {
				if oneHit[exp[i-1].term] && !oneHit[exp[i].term] {
					c.Count("general_after_1hit")
					break
				}
			}
			desc := fmt.Sprintf("%s field=%q range=%s automaton=%s", cas, field, r, a.name)
			c.Sample(my, func() string { return desc })
			var got []dictEntry
			msg := explore.Guard(func() {
				it := dict.Iterator(a.a, r.start, r.end)
				for {
					var e segment.DictionaryEntry
					e, err = it.Next()
					if err != nil || e == nil {
						break
					}
					got = append(got, dictEntry{e.Term(), e.Count()})
					if len(got) > 1000 {
						err = fmt.Errorf("iterator does not terminate")
						break
					}
				}
				if err == nil {
					// exhausted iterators stay exhausted
					if e, err2 := it.Next(); e != nil || err2 != nil {
						err = fmt.Errorf("Next after end returned %v, %v", e, err2)
					}
				}
			})
			if msg != "" || err != nil {
				c.Violate(scope, my, sigOf("C08", "iterate", "error: "+errText(msg, err)), errText(msg, err), desc)
				continue
			}
			c.Outcome(explore.Hash(fmt.Sprint(got)))
			if len(got) != len(exp) {
				sig := "C08/iterate/wrong/terms"
				if r.start != nil && r.end != nil && bytes.Equal(r.start, r.end) {
					sig += "/empty-range-start-equals-end"
				}
				c.Violate(scope, my, sig, fmt.Sprintf("got %q want %q", got, exp), desc)
				continue
			}
			for i := range got {
				if got[i].term != exp[i].term {
					c.Violate(scope, my, "C08/iterate/wrong/terms", fmt.Sprintf("got %q want %q", got, exp), desc)
					break
				}
				if got[i].count != exp[i].count {
					c.Violate(scope, my, "C08/iterate/wrong/dict-count", fmt.Sprintf("term %q: entry count %d, documents containing it %d (all: got %v want %v)", got[i].term, got[i].count, exp[i].count, got, exp), desc)
					break
				}
			}
		}
	}
	// Contains / PostingsList agree with the set, for every alphabet term and an absent one
	my := *idx
	*idx++
	if c.Replay && my != c.ReplayIndex {
		return
	}
	c.Eval()
	c.R.Distinct++
	probe := append(append([]string{}, gen.T...), "absent", "y\x00")
	for _, t := range wantTerms {
		probe = append(probe, t)
	}
	sort.Strings(probe)
	var pre segment.PostingsList // one list reused as prealloc across all probes (hits and misses alternate)
	for _, t := range probe {
		// the same lookup through the reused list must agree with the set as well
		{
			var cnt uint64
			var n int
			msg := explore.Guard(func() {
				var pl segment.PostingsList
				pl, err = dict.PostingsList([]byte(t), nil, pre)
				if err != nil {
					return
				}
				pre = pl
				cnt = pl.Count()
				var it segment.PostingsIterator
				it, err = pl.Iterator(false, false, false, nil)
				if err != nil {
					return
				}
				for {
					var p segment.Posting
					p, err = it.Next()
					if err != nil || p == nil {
						return
					}
					n++
				}
			})
			if msg != "" || err != nil || cnt != wantCount[t] || n != int(wantCount[t]) {
				c.Violate(scope, my, "C08/probe/wrong/postingslist-reused", fmt.Sprintf("PostingsList(%q) through a reused list: count %d, %d postings, want %d (%s)", t, cnt, n, wantCount[t], errText(msg, err)), fmt.Sprintf("%s field=%q", cas, field))
				return
			}
		}
		_, has := wantCount[t]
		var contains bool
		var plc uint64
		var docs []uint64
		msg := explore.Guard(func() {
			contains, err = dict.Contains([]byte(t))
			if err != nil {
				return
			}
			var pl segment.PostingsList
			pl, err = dict.PostingsList([]byte(t), nil, nil)
			if err != nil {
				return
			}
			if has || pl.Count() != 0 {
				plc = pl.Count()
			}
			var it segment.PostingsIterator
			it, err = pl.Iterator(false, false, false, nil)
			if err != nil {
				return
			}
			for {
				var p segment.Posting
				p, err = it.Next()
				if err != nil || p == nil {
					return
				}
				docs = append(docs, p.Number())
			}
		})
		desc := fmt.Sprintf("%s field=%q probe term %q", cas, field, t)
		if msg != "" || err != nil {
			c.Violate(scope, my, sigOf("C08", "probe", "error: "+errText(msg, err)), errText(msg, err), desc)
			return
		}
		if contains != has {
			c.Violate(scope, my, "C08/probe/wrong/contains", fmt.Sprintf("Contains=%v, term live=%v", contains, has), desc)
			return
		}
		if fmt.Sprint(docs) != fmt.Sprint(want.Postings(field, t)) || plc != wantCount[t] {
			c.Violate(scope, my, "C08/probe/wrong/postingslist", fmt.Sprintf("PostingsList docs %v count %d, want %v", docs, plc, want.Postings(field, t)), desc)
			return
		}
	}
}

func oneHitTerms(ls *model.LSeg, field string) map[string]bool {
	out := map[string]bool{}
	for _, t := range ls.Terms(field) {
		ps := ls.Postings(field, t)
		if len(ps) == 1 {
			p := ls.Docs[ps[0]].Fields[field].Terms[t]
			if p.Freq == 1 && len(p.Locs) == 0 {
				out[t] = true
			}
		}
	}
	return out
}

func runC08(c *explore.Ctx) {
	full := c.Thorough()
	rsFull, asFull := ranges(true), automata(true)
	rsSmall, asSmall := ranges(false), automata(false)
	// TERMSET: 4^5 assignments
	for fi, form := range []string{"built", "merged"} {
		gen.Pow(4, len(gen.T), func(v []int) bool {
			var code int64
			for _, x := range v {
				code = code*4 + int64(x)
			}
			scope := fmt.Sprintf("TERMSET#%d/%s", code, form)
			if !c.Replay && int((code*2+int64(fi))%int64(c.NShards)) != c.Shard {
				return true
			}
			if c.Replay && c.ReplayScope != scope {
				return true
			}
			c.Begin(scope, 0)
			batch := []gen.Doc{{}, {}}
			var t0, t1 []gen.Term
			for ti, x := range v {
				// alternate payloads: even terms plain f1 (1-hit candidates), odd terms carry a location
				tm := gen.Term{T: gen.T[ti], Freq: 1}
				if ti%2 == 1 && x == 3 {
					tm = gen.TermKind(gen.T[ti], gen.KF2L1, "")
				}
				if x&1 != 0 {
					t0 = append(t0, tm)
				}
				if x&2 != 0 {
					t1 = append(t1, tm)
				}
			}
			if len(t0) > 0 {
				batch[0] = gen.Doc{{N: "a", Len: len(t0), Terms: t0}}
			}
			if len(t1) > 0 {
				batch[1] = gen.Doc{{N: "a", Len: len(t1), Terms: t1}}
			}
			ls := model.Build(batch)
			seg, err := build(batch, 1025)
			if err != nil {
				c.Violate(scope, 0, sigOf("C08", "build", "error: "+err.Error()), err.Error(), model.BatchString(batch))
				return true
			}
			want := ls
			oneHit := map[string]bool{}
			if form == "merged" {
				seg, want, err = inputForm(seg, ls, 2, 1025)
				if err != nil {
					c.Violate(scope, 0, sigOf("C08", "form", "error: "+err.Error()), err.Error(), model.BatchString(batch))
					return true
				}
				oneHit = oneHitTerms(want, "a")
			}
			cas := scope + " " + model.BatchString(batch)
			var idx int64
			rs, as := rsFull, asFull
			if !full {
				as = asSmall
			}
			checkDict(c, scope, &idx, seg, want, "a", oneHit, rs, as, cas)
			checkDict(c, scope, &idx, seg, want, "nosuch", nil, rsSmall, asSmall, cas)
			checkDict(c, scope, &idx, seg, want, "_id", nil, rsSmall[:3], asSmall[:2], cas)
			return !c.Expired()
		})
	}
	// merge outputs with deletions: terms whose documents were all deleted disappear
	check := func(scope string, idx int64, r *mergeRun) {
		if r.err != nil || r.lerr != nil {
			c.Violate(scope, idx, sigOf("C08", "merge", "error: "+errText("", r.err)+errText("", r.lerr)), fmt.Sprint(r.err, r.lerr), r.String())
			return
		}
		sub := idx * 4096
		subScope := scope + "/dict"
		if c.Replay && c.ReplayScope != subScope {
			return
		}
		for _, f := range append(append([]string{}, r.want.Fields...), "nosuch") {
			checkDict(c, subScope, &sub, r.loaded, r.want, f, oneHitTerms(r.want, f), rsSmall, asSmall, r.String())
		}
	}
	K := 5
	if full {
		K = 8
	}
	mergeSweepDict(c, 2, K, 2, mergeCfgsQuick[:1], check)
	// three inputs: the term enumerator's tie handling (two inputs on the same term while a third
	// is on a smaller one) cannot show with two
	mergeSweepDict(c, 3, 4, 1, mergeCfgsQuick[:1], check)
	zooEach(c, true, func(idx int64, z *zooSeg) {
		fs := append([]string{}, z.want.Fields...)
		if len(fs) > 6 {
			fs = append(fs[:3], fs[len(fs)-3:]...)
		}
		mark := len(c.R.Violations)
		sub := int64(0)
		for _, f := range append(fs, "nosuch") {
			if len(z.want.Terms(f)) > 400 {
				continue // thousands of terms x ranges x automata: the dictionary itself is compared by every observation
			}
			// ranges whose bounds are the member's own terms (first, middle, last), their successors and
			// their longest proper prefixes: bounds as long as the terms, sharing long prefixes with them
			rs := append([]rangeSpec{}, rsSmall...)
			if ts := z.want.Terms(f); len(ts) > 0 {
				var keys [][]byte
				for _, t := range []string{ts[0], ts[len(ts)/2], ts[len(ts)-1]} {
					// (the property quantifies over nil or NON-EMPTY bounds: an empty non-nil key is not
					// a bound it speaks about, so the empty term contributes only its successor)
					if len(t) > 0 {
						keys = append(keys, []byte(t))
					}
					keys = append(keys, []byte(t+"\x00"))
					if len(t) > 1 {
						keys = append(keys, []byte(t[:len(t)-1]))
					}
				}
				sort.Slice(keys, func(i, j int) bool { return bytes.Compare(keys[i], keys[j]) < 0 })
				for i := range keys {
					rs = append(rs, rangeSpec{keys[i], nil}, rangeSpec{nil, keys[i]})
					for j := i; j < len(keys); j++ {
						rs = append(rs, rangeSpec{keys[i], keys[j]})
					}
				}
			}
			checkDict(c, "ZOO", &sub, z.seg, z.want, f, oneHitTerms(z.want, f), rs, asSmall[:2], z.name)
		}
		zooRelabel(c, mark, idx, z.name)
	})
}

// mergeSweepDict is mergeSweep whose replay addresses sub-cases "<scope>/dict" #idx*4096+k.
func mergeSweepDict(c *explore.Ctx, k, K, maxDocs int, cfgs []mergeCfg, check func(scope string, idx int64, r *mergeRun)) {
	if c.Replay && strings.HasSuffix(c.ReplayScope, "/dict") {
		base := strings.TrimSuffix(c.ReplayScope, "/dict")
		target := c.ReplayIndex
		c2 := *c
		c2.ReplayScope, c2.ReplayIndex = base, target/4096
		mergeSweep(&c2, k, K, maxDocs, cfgs, func(scope string, idx int64, r *mergeRun) {
			c.R.Evaluations = 0
			check(scope, idx, r)
		})
		return
	}
	before := c.R.Nontrivial
	mergeSweep(c, k, K, maxDocs, cfgs, func(scope string, idx int64, r *mergeRun) {
		c.R.Nontrivial = before
		c.R.Evaluations--
		c.R.Distinct--
		check(scope, idx, r)
		before = c.R.Nontrivial
	})
	c.R.Nontrivial = before
}
