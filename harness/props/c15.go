package props

import (
	"bytes"
	"fmt"

	"github.com/RoaringBitmap/roaring"
	segment "github.com/blugelabs/bluge_segment_api"
	ice "github.com/blugelabs/ice/v2"

	"verifharness/explore"
	"verifharness/gen"
	"verifharness/model"
)

func init() {
	register(&explore.Prop{
		ID: "C15", Level: levelMC, Explorer: "E2 sequence explorer, path mode",
		Rule: "environment = four segments (A built in memory, B persisted+loaded from a byte slice the harness keeps, M produced by a merge: 1-hit terms, A' a twin of A with the same shape and byte ranges but other content) and three caller bitmaps (single doc; a run-optimisable range; empty); operations = full observation of each segment, WriteTo of each, DocsMatchingTerms, a doc-value reader opened on the very slice Fields() returned, builds of two other batches (the pooled builder is recycled), PostingsList(except=bitmap)+walk on each segment, and merges of sub-lists [A],[A,B],[B,A],[A,M],[M,B],[A,B,M] under several bitmap assignments (public Merge API and chunk-mode hook); every operation sequence of length <=3 (thorough <=4) on a fresh environment; after every operation: observation and persisted bytes of every segment, the raw byte image given to Load, and value + serialized form of every bitmap must equal the baseline; SEQ-LARGE: a second environment of three 1100-document segments (loaded from a kept byte slice, merge output loaded from a kept byte slice, built in memory: two doc-value chunks, nine stored blocks) and a 130-document segment whose first stored block decompresses to 1.4 MiB, with 23 operations (one doc-value reader crossing the chunk boundary forwards / backwards over different field lists, stored visits across blocks, postings walks with Advance across chunks, five merges), every sequence of length <=2 (thorough <=3), after every operation: raw images, persisted bytes and a probe observation (doc values, stored fields, one postings walk on both sides of every boundary) of all three, for single operations the full observation too; DROPS-LARGE: a 4000-document segment merged (alone / after a partner; public API / hook) with a caller bitmap of 100, 1024, 2048, 3071, 3072, 3073, 3500, 3999 documents (from the front, up to the end, every other), built by single Add calls: members and serialized form of the bitmap and the segment's bytes unchanged; " +
			"distinct = sequences; non-trivial = sequence contains a merge or a WriteTo followed by a re-observation (all do); states = environments built, transitions = operations",
		Assumptions: commonAssumptions, Budget: qBudget, Run: runC15,
	})
}

type c15Env struct {
	segs    []segment.Segment
	names   []string
	rawB    []byte // the byte image behind B
	rawCopy []byte
	bms     []*roaring.Bitmap
	base    c15Snap
}

type c15Snap struct {
	obs   []string
	bytes [][]byte
	bmVal []string
	bmSer [][]byte
}

func c15Batches() [][]model.Doc {
	a := []model.Doc{gen.MixDoc(2, "a", 0), gen.MixDoc(1, "a", 1), gen.MixDoc(4, "a", 2), gen.MixDoc(2, "a", 3), gen.MixDoc(9, "a", 4), gen.MixDoc(1, "a", 5)}
	b := []model.Doc{gen.MixDoc(3, "b", 0), gen.MixDoc(6, "b", 1), gen.MixDoc(2, "b", 2), gen.MixDoc(7, "b", 3), gen.MixDoc(1, "b", 4), gen.MixDoc(11, "b", 5)}
	m := []model.Doc{gen.MixDoc(1, "m", 0), gen.MixDoc(2, "m", 1), gen.MixDoc(5, "m", 2), gen.MixDoc(1, "m", 3), gen.MixDoc(0, "m", 4), gen.MixDoc(4, "m", 5)}
	return [][]model.Doc{a, b, m}
}

func newC15Env() (*c15Env, error) {
	bs := c15Batches()
	e := &c15Env{names: []string{"A(built)", "B(loaded)", "M(merged)", "A'(twin of A: same shape, other content)"}}
	a, err := build(bs[0], 1025)
	if err != nil {
		return nil, err
	}
	bb, err := build(bs[1], 2)
	if err != nil {
		return nil, err
	}
	pb, _, err := persist(bb)
	if err != nil {
		return nil, err
	}
	e.rawB = exact(pb)
	e.rawCopy = append([]byte(nil), pb...)
	var b segment.Segment
	if msg := explore.Guard(func() { b, err = ice.Load(segment.NewDataBytes(e.rawB)) }); msg != "" || err != nil {
		return nil, fmt.Errorf("%s", errText(msg, err))
	}
	mb, err := build(bs[2], 1025)
	if err != nil {
		return nil, err
	}
	m, _, err := inputForm(mb, model.Build(bs[2]), 2, 1025)
	if err != nil {
		return nil, err
	}
	// a twin of A: the same document kinds under another tag of the same length - every section
	// has the same byte ranges as A's but other content (anything cached by position only confuses them)
	var twinBatch []model.Doc
	for i, k := range []int{2, 1, 4, 2, 9, 1} {
		twinBatch = append(twinBatch, gen.MixDoc(k, "z", i))
	}
	twin, err := build(twinBatch, 1025)
	if err != nil {
		return nil, err
	}
	e.segs = []segment.Segment{a, b, m, twin}
	run := roaring.New()
	run.AddRange(0, 5) // {0..4}: RunOptimize would rewrite its container
	e.bms = []*roaring.Bitmap{bitmapOf(1), run, roaring.New()}
	snap, err := e.snapshot()
	if err != nil {
		return nil, err
	}
	e.base = snap
	return e, nil
}

func (e *c15Env) snapshot() (s c15Snap, err error) {
	for _, sg := range e.segs {
		o, err := observe(sg)
		if err != nil {
			return s, err
		}
		acc := ""
		if m, ok := sg.(interface {
			NumDocs() uint64
			ChunkMode() uint32
			Version() uint32
			CRC() uint32
			FieldsIndexOffset() uint64
			StoredIndexOffset() uint64
			DocValueOffset() uint64
		}); ok {
			acc = fmt.Sprintf(" accessors: numDocs=%d chunkMode=%d version=%d crc=%08x fields@%d stored@%d docvalues@%d size=%d",
				m.NumDocs(), m.ChunkMode(), m.Version(), m.CRC(), m.FieldsIndexOffset(), m.StoredIndexOffset(), m.DocValueOffset(), sg.Size())
		}
		if cs, err := sg.CollectionStats("no-such-field"); err == nil {
			acc += fmt.Sprintf(" unknown-field-stats=%d/%d/%d", cs.TotalDocumentCount(), cs.DocumentCount(), cs.SumTotalTermFrequency())
		}
		s.obs = append(s.obs, o.String()+acc)
		b, _, err := persist(sg)
		if err != nil {
			return s, err
		}
		s.bytes = append(s.bytes, b)
	}
	for _, bm := range e.bms {
		s.bmVal = append(s.bmVal, bm.String())
		ser, err := bm.ToBytes()
		if err != nil {
			return s, err
		}
		s.bmSer = append(s.bmSer, ser)
	}
	return s, nil
}

// diff names what changed relative to the baseline.
func (e *c15Env) diff() string {
	cur, err := e.snapshot()
	if err != nil {
		return "error: re-observation failed: " + err.Error()
	}
	for i := range e.segs {
		if cur.obs[i] != e.base.obs[i] {
			return fmt.Sprintf("segment-observation: %s answers differently than before", e.names[i])
		}
		if !bytes.Equal(cur.bytes[i], e.base.bytes[i]) {
			return fmt.Sprintf("segment-bytes: %s persists different bytes than before", e.names[i])
		}
	}
	if !bytes.Equal(e.rawB, e.rawCopy) {
		return "raw-image: the byte slice handed to Load was modified"
	}
	for i := range e.bms {
		if cur.bmVal[i] != e.base.bmVal[i] {
			return fmt.Sprintf("bitmap-value: caller bitmap %d changed from %s to %s", i, e.base.bmVal[i], cur.bmVal[i])
		}
		if !bytes.Equal(cur.bmSer[i], e.base.bmSer[i]) {
			return fmt.Sprintf("bitmap-representation: caller bitmap %d kept its value but its serialized form changed (in-place optimisation)", i)
		}
	}
	return ""
}

type c15Op struct {
	name string
	run  func(e *c15Env) error
}

func c15Ops() []c15Op {
	var ops []c15Op
	// folding per-segment statistics the way a reader does: Merge into the stats object a segment
	// handed out (for a field it lacks, and for one it has)
	ops = append(ops, c15Op{"foldStats", func(e *c15Env) error {
		for _, f := range []string{"no-such-field", "a"} {
			for ai := range e.segs { // each segment's answer serves as the accumulator in turn
				acc, err := e.segs[ai].CollectionStats(f)
				if err != nil {
					return err
				}
				for _, sg := range e.segs {
					cs, err := sg.CollectionStats("a")
					if err != nil {
						return err
					}
					acc.Merge(cs)
				}
			}
		}
		return nil
	}})
	ops = append(ops, c15Op{"observe(twin)", func(e *c15Env) error { _, err := observe(e.segs[3]); return err }})
	ops = append(ops, c15Op{"stored(twin,0)", func(e *c15Env) error {
		return e.segs[3].VisitStoredFields(0, func(string, []byte) bool { return true })
	}})
	for i := 0; i < 3; i++ {
		i := i
		ops = append(ops, c15Op{fmt.Sprintf("observe(%d)", i), func(e *c15Env) error { _, err := observe(e.segs[i]); return err }})
		ops = append(ops, c15Op{fmt.Sprintf("writeTo(%d)", i), func(e *c15Env) error { _, _, err := persist(e.segs[i]); return err }})
		ops = append(ops, c15Op{fmt.Sprintf("docsMatching(%d)", i), func(e *c15Env) error {
			var err error
			msg := explore.Guard(func() {
				_, err = e.segs[i].DocsMatchingTerms([]segment.Term{pairT{"a", "x"}, pairT{"_id", "a1"}, pairT{"b", "x"}})
			})
			return errOf(msg, err)
		}})
		// results of the API handed straight back into the API (no defensive copy by the caller)
		ops = append(ops, c15Op{fmt.Sprintf("docvalues(%d,fields=seg.Fields())", i), func(e *c15Env) error {
			var err error
			msg := explore.Guard(func() {
				var r segment.DocumentValueReader
				r, err = e.segs[i].DocumentValueReader(e.segs[i].Fields())
				if err != nil {
					return
				}
				for d := uint64(0); d < e.segs[i].Count() && d < 3; d++ {
					if err = r.VisitDocumentValues(d, func(string, []byte) {}); err != nil {
						return
					}
				}
			})
			return errOf(msg, err)
		}})
		for bi := 0; bi < 3; bi++ {
			bi := bi
			ops = append(ops, c15Op{fmt.Sprintf("postings(%d,except=bm%d)", i, bi), func(e *c15Env) error {
				var err error
				msg := explore.Guard(func() {
					for _, f := range []string{"a", "b", "_id"} {
						var d segment.Dictionary
						d, err = e.segs[i].Dictionary(f)
						if err != nil {
							return
						}
						it := d.Iterator(nil, nil, nil)
						for {
							var en segment.DictionaryEntry
							en, err = it.Next()
							if err != nil || en == nil {
								break
							}
							var pl segment.PostingsList
							pl, err = d.PostingsList([]byte(en.Term()), e.bms[bi], nil)
							if err != nil {
								return
							}
							pl.Count()
							var pi segment.PostingsIterator
							pi, err = pl.Iterator(true, true, true, nil)
							if err != nil {
								return
							}
							for {
								var p segment.Posting
								p, err = pi.Next()
								if err != nil || p == nil {
									break
								}
							}
						}
					}
				})
				return errOf(msg, err)
			}})
		}
	}
	// building OTHER segments: a built segment must not share mutable state with the pooled builder
	for bi, other := range [][]model.Doc{
		{gen.MixDoc(3, "n", 0), gen.MixDoc(9, "n", 1), gen.MixDoc(2, "n", 2)},
		{gen.MixDoc(4, "o", 0)},
	} {
		other := other
		ops = append(ops, c15Op{fmt.Sprintf("New(other batch %d)", bi), func(e *c15Env) error {
			_, err := build(other, 1025)
			return err
		}})
	}
	type mspec struct {
		segs []int
		bms  []int // -1 nil
		pub  bool
	}
	for _, ms := range []mspec{
		{[]int{0}, []int{0}, false}, {[]int{0}, []int{1}, true}, {[]int{2}, []int{1}, false},
		{[]int{0, 1}, []int{1, -1}, true}, {[]int{1, 0}, []int{1, 0}, false}, {[]int{0, 2}, []int{-1, 0}, true},
		{[]int{2, 1}, []int{1, 2}, false}, {[]int{0, 1, 2}, []int{1, 0, 1}, true}, {[]int{0, 0}, []int{1, 1}, false},
	} {
		ms := ms
		ops = append(ops, c15Op{fmt.Sprintf("merge(%v,bms=%v,public=%v)", ms.segs, ms.bms, ms.pub), func(e *c15Env) error {
			var segs []segment.Segment
			var drops []*roaring.Bitmap
			for k, si := range ms.segs {
				segs = append(segs, e.segs[si])
				if ms.bms[k] < 0 {
					drops = append(drops, nil)
				} else {
					drops = append(drops, e.bms[ms.bms[k]])
				}
			}
			if ms.pub {
				var err error
				msg := explore.Guard(func() {
					var w sliceWriter
					_, err = ice.Merge(segs, drops, 1024).WriteTo(&w, nil)
				})
				return errOf(msg, err)
			}
			_, _, _, err := merge(segs, drops, 2)
			return err
		}})
	}
	return ops
}

func errOf(msg string, err error) error {
	if msg != "" || err != nil {
		return fmt.Errorf("%s", errText(msg, err))
	}
	return nil
}

func runC15(c *explore.Ctx) {
	runC15Large(c)
	c15Drops(c)
	ops := c15Ops()
	maxLen := 3
	if c.Thorough() {
		maxLen = 4
	}
	scope := fmt.Sprintf("SEQ(<=%d of %d ops)", maxLen, len(ops))
	var idx int64
	for n := 1; n <= maxLen; n++ {
		ok := gen.Pow(len(ops), n, func(v []int) bool {
			my := idx
			idx++
			if !c.MineIdx(scope, my) {
				return true
			}
			c.Eval()
			c.Nontrivial()
			var names []string
			for _, o := range v {
				names = append(names, ops[o].name)
			}
			cas := fmt.Sprintf("%s #%d %v", scope, my, names)
			c.Sample(my, func() string { return cas })
			e, err := newC15Env()
			if err != nil {
				envFail(c, "C15 environment: "+err.Error())
				return false
			}
			c.R.States++
			for k, o := range v {
				c.R.Transitions++
				if err := ops[o].run(e); err != nil {
					c.Violate(scope, my, sigOf("C15", "op", "error: "+err.Error()), fmt.Sprintf("operation %d (%s) failed: %v", k, ops[o].name, err), cas)
					return !c.Expired()
				}
				if d := e.diff(); d != "" {
					c.Violate(scope, my, sigOf("C15", "after-op", d), fmt.Sprintf("after operation %d (%s): %s", k, ops[o].name, d), cas)
					return !c.Expired()
				}
			}
			return !c.Expired()
		})
		if !ok {
			break
		}
	}
}
