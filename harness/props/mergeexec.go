package props

import (
	"fmt"
	"strings"

	"github.com/RoaringBitmap/roaring"
	segment "github.com/blugelabs/bluge_segment_api"

	"verifharness/explore"
	"verifharness/gen"
	"verifharness/model"
	"verifharness/obs"
)

// mergeCfg fixes the configuration dimensions of a merge sweep.
type mergeCfg struct {
	Name    string
	InModes []uint32 // input i is built with InModes[i%len]
	Form    int      // 0 built (in memory), 1 persisted+loaded, 2 previously merged (self-merge, loaded)
	Out     uint32   // output chunk mode
	SumLen  bool     // normalise field lengths to sum of frequencies (C16 contract)
}

func (c mergeCfg) String() string {
	return fmt.Sprintf("%s(in=%v form=%d out=%d)", c.Name, c.InModes, c.Form, c.Out)
}

var mergeCfgsQuick = []mergeCfg{
	{"prod", []uint32{1025}, 0, 1025, false},
	{"fixed", []uint32{1, 2}, 0, 1, false},
	{"remerge", []uint32{1025, 1}, 2, 1025, false},
}
var mergeCfgsThorough = append(append([]mergeCfg{}, mergeCfgsQuick...),
	mergeCfg{"loaded", []uint32{2, 1025}, 1, 2, false},
	mergeCfg{"remerge-fixed", []uint32{1, 3}, 2, 1, false})

type mergeRun struct {
	cfg      mergeCfg
	specs    []gen.SegSpec
	batches  [][]model.Doc
	lsegs    []*model.LSeg
	segs     []segment.Segment
	drops    []*roaring.Bitmap
	dropSets []map[uint64]bool
	want     *model.LSeg
	wantNums [][]uint64

	bytes  []byte
	nums   [][]uint64
	n      uint64
	err    error
	loaded segment.Segment
	lerr   error
	// alias: the same segment OBJECT occurs more than once in the input list
	alias bool
}

func (r *mergeRun) String() string {
	var parts []string
	for i, s := range r.specs {
		parts = append(parts, fmt.Sprintf("seg%d{%s}", i, s.String()))
	}
	return r.cfg.String() + " " + strings.Join(parts, " ")
}

func (r *mergeRun) survivors() []model.Doc {
	var out []model.Doc
	for i, b := range r.batches {
		for j, d := range b {
			if r.dropSets[i] == nil || !r.dropSets[i][uint64(j)] {
				out = append(out, d)
			}
		}
	}
	return out
}

// inputForm converts a freshly built segment to the requested form.
func inputForm(seg segment.Segment, ls *model.LSeg, form int, mode uint32) (segment.Segment, *model.LSeg, error) {
	switch form {
	case 0:
		return seg, ls, nil
	case 1:
		b, _, err := persist(seg)
		if err != nil {
			return nil, nil, err
		}
		l, err := loadMem(b)
		return l, ls, err
	case 2:
		if len(ls.Docs) == 0 {
			return seg, ls, nil
		}
		b, _, _, err := merge([]segment.Segment{seg}, []*roaring.Bitmap{nil}, mode)
		if err != nil {
			return nil, nil, err
		}
		l, err := loadMem(b)
		if err != nil {
			return nil, nil, err
		}
		ml, _ := model.Merge([]*model.LSeg{ls}, []map[uint64]bool{nil})
		return l, ml, nil
	}
	panic("form")
}

// prepMerge builds the inputs of a merge case. An error here is a harness-visible failure of
// building/loading an input (reported by the caller under the build/load signature).
func prepMerge(cfg mergeCfg, specs []gen.SegSpec) (*mergeRun, error) {
	r := &mergeRun{cfg: cfg, specs: specs}
	for i, sp := range specs {
		batch := sp.Batch(fmt.Sprintf("s%d", i))
		if cfg.SumLen {
			model.SumFreqLen(batch)
		}
		mode := cfg.InModes[i%len(cfg.InModes)]
		seg, err := build(batch, mode)
		if err != nil {
			return nil, fmt.Errorf("build input %d: %w", i, err)
		}
		ls := model.Build(batch)
		seg, ls, err = inputForm(seg, ls, cfg.Form, mode)
		if err != nil {
			return nil, fmt.Errorf("input form %d: %w", i, err)
		}
		r.batches = append(r.batches, batch)
		r.segs = append(r.segs, seg)
		r.lsegs = append(r.lsegs, ls)
		if sp.DropForm == 0 {
			r.drops = append(r.drops, nil)
			r.dropSets = append(r.dropSets, nil)
		} else {
			r.drops = append(r.drops, bitmapOf(sp.Drops...))
			ds := map[uint64]bool{}
			for _, d := range sp.Drops {
				ds[uint64(d)] = true
			}
			r.dropSets = append(r.dropSets, ds)
		}
	}
	r.want, r.wantNums = model.Merge(r.lsegs, r.dropSets)
	return r, nil
}

func (r *mergeRun) run() {
	r.bytes, r.nums, r.n, r.err = merge(r.segs, r.drops, r.cfg.Out)
	if r.err == nil {
		r.loaded, r.lerr = loadMem(r.bytes)
	}
}

func mergeNontrivial(r *mergeRun) bool {
	for _, s := range r.specs {
		if len(s.Drops) > 0 {
			return true
		}
	}
	if len(r.lsegs) >= 2 {
		for i := 1; i < len(r.lsegs); i++ {
			if strings.Join(r.lsegs[i].Fields, ",") != strings.Join(r.lsegs[0].Fields, ",") {
				return true
			}
		}
		// shared term
		seen := map[string]int{}
		for i, ls := range r.lsegs {
			for _, f := range ls.Fields {
				for _, t := range ls.Terms(f) {
					k := f + "\x00" + t
					if j, ok := seen[k]; ok && j != i {
						return true
					}
					seen[k] = i
				}
			}
		}
	}
	return false
}

// mergeSweep enumerates the MERGE(k,K) scope under every configuration and hands each executed
// run to check.
func mergeSweep(c *explore.Ctx, k, K, maxDocs int, cfgs []mergeCfg, check func(scope string, idx int64, r *mergeRun)) {
	opts := gen.SegOptions(K, maxDocs)
	for _, cfg := range cfgs {
		cfg := cfg
		scope := fmt.Sprintf("MERGE(k=%d,K=%d,d=%d)/%s", k, K, maxDocs, cfg.Name)
		gen.MergeLists(opts, k, func(idx int64, specs []gen.SegSpec) bool {
			if !c.MineIdx(scope, idx) && !c.ReplayParent(scope, idx) {
				return true
			}
			c.Eval()
			r, err := prepMerge(cfg, specs)
			if err != nil {
				c.Violate(scope, idx, sigOf(c.Prop, "inputs", "error: "+err.Error()), err.Error(), fmt.Sprintf("%s %v", cfg, specs))
				return !c.Expired()
			}
			if mergeNontrivial(r) {
				c.Nontrivial()
			}
			c.Sample(idx, func() string { return scope + " #" + fmt.Sprint(idx) + " " + r.String() })
			r.run()
			check(scope, idx, r)
			return !c.Expired()
		})
	}
}

// zeroSurvivors reports whether nothing survives the merge.
func (r *mergeRun) zeroSurvivors() bool { return len(r.want.Docs) == 0 }

func init() {
	register(&explore.Prop{
		ID: "C02", Level: levelMC, Explorer: "E1 input-space enumerator",
		Rule: "every list of <=k segments (each a MIX batch of <=2 docs over K kinds, incl. the empty batch) x every deletion bitmap (nil, empty, every subset) x configurations (input chunk modes, input form built/loaded/previously merged, output mode); merged with the real merger, loaded, observed and compared with (a) the reference model and (b) New(survivors); MERGE-LARGE (cardinalities / document counts around 1024); MERGE-ALIAS (the same segment object twice in one list, [S,S] and [S,T,S], every pair of bitmaps); MERGE(2,3,2) under 8 norm tables of unusual float32 bit patterns; LARGE-1HIT (a term with 1023..2048 postings meeting the same term as a 1-hit entry of a previously merged input, that document deleted or kept); MERGE-AGAIN (the same segment objects merged a second time with other bitmaps / in swapped order: the later merge is checked); MERGE-TERM (one (field, term) whose posting per document is one of {absent, f1, f1+loc, f2+loc, f300+2 locs}: every pair of segments of <=2 documents, inputs built or previously merged, with and without a deletion); MERGE-EXTREME (batches with extreme values: huge frequencies/location numbers, 70 000-byte terms and values, thousands of terms/locations/instances - alone, with a partner, twice); " +
			"further families (DESIGN.md 5 C02): MERGE-ALIAS, NORMS, MERGE-EXTREME, MERGE-TERM, MERGE-AGAIN, LARGE-1HIT (terms x and the empty term), MERGE-ZOO (every ZOO member that is one merge of fresh inputs); MERGE-LARGE deletes the even documents of the first and the odd ones of the second input; distinct = distinct (configuration, segment list, bitmaps); non-trivial = >=1 dropped doc, or two segments share a term, or field lists differ",
		Assumptions: commonAssumptions, Budget: qBudget, Run: runC02,
	})
}

const c02Comps = obs.CAll &^ obs.CStats

func runC02(c *explore.Ctx) {
	check := func(scope string, idx int64, r *mergeRun) {
		cas := r.String()
		if r.err != nil {
			c.Violate(scope, idx, sigOf("C02", "merge", "error: "+r.err.Error()), r.err.Error(), cas)
			return
		}
		if r.lerr != nil {
			sig := sigOf("C02", "load", "error: "+r.lerr.Error())
			if r.zeroSurvivors() {
				sig += "/zero-survivors"
			}
			c.Violate(scope, idx, sig, r.lerr.Error(), cas)
			return
		}
		got, err := observe(r.loaded)
		if err != nil {
			c.Violate(scope, idx, sigOf("C02", "observe", "error: "+err.Error()), err.Error(), cas)
			return
		}
		c.Outcome(explore.Hash(got.String()))
		if d := obs.Diff(got, obs.Expected(r.want), c02Comps); d != "" {
			c.Violate(scope, idx, sigOf("C02", "vs-model", d), d, cas)
			return
		}
		// (b) independent oracle: rebuild of the survivors
		surv := r.survivors()
		rs, err := build(surv, r.cfg.Out)
		if err != nil {
			c.Violate(scope, idx, sigOf("C02", "rebuild", "error: "+err.Error()), err.Error(), cas)
			return
		}
		ro, err := observe(rs)
		if err != nil {
			c.Violate(scope, idx, sigOf("C02", "rebuild-observe", "error: "+err.Error()), err.Error(), cas)
			return
		}
		if d := obs.Diff(got, ro, c02Comps&^obs.CFields); d != "" {
			c.Violate(scope, idx, sigOf("C02", "vs-rebuild", d), d, cas)
			return
		}
		// deleted documents unreachable: every _id term of a dropped doc is gone
		for i, b := range r.batches {
			for j := range b {
				if !r.alias && r.dropSets[i] != nil && r.dropSets[i][uint64(j)] {
					id := fmt.Sprintf("s%d%d", i, j)
					for _, t := range got.Dicts["_id"] {
						if t.Term == id {
							c.Violate(scope, idx, "C02/deleted-reachable", "dropped document "+id+" still has an _id term", cas)
						}
					}
				}
			}
		}
		countMergeShape(c, r, got)
	}
	if c.Thorough() {
		mergeSweep(c, 2, 12, 2, mergeCfgsThorough, check)
		mergeSweep(c, 3, 4, 2, mergeCfgsQuick[:1], check)
	} else {
		mergeSweep(c, 2, 6, 2, mergeCfgsQuick, check)
		mergeSweep(c, 3, 4, 1, mergeCfgsQuick[:1], check)
		mergeSweep(c, 4, 3, 1, mergeCfgsQuick[:1], check)
	}
	largeMerges(c, check)
	aliasMerges(c, check)
	normMerges(c, check)
	extremeMerges(c, check)
	termMerges(c, check)
	againMerges(c, check)
	large1HitMerges(c, check)
	zooMerges(c, check)
}

// zooMerges: MERGE-ZOO - every ZOO member that is one merge of freshly built inputs (size sweeps,
// wide field tables, extremes with a partner, three-input merges, ...) under the merge oracle.
func zooMerges(c *explore.Ctx, check func(scope string, idx int64, r *mergeRun)) {
	scope := "MERGE-ZOO"
	for i, mk := range zooMakers() {
		if mk.batches == nil || mk.form != 0 {
			continue
		}
		if !c.MineIdx(scope, int64(i)) || c.Expired() {
			continue
		}
		c.Eval()
		c.Nontrivial()
		var batches [][]model.Doc
		for _, bf := range mk.batches {
			batches = append(batches, bf())
		}
		drops := make([][]uint32, len(batches))
		copy(drops, mk.drops)
		r, err := manualMergeIn("zoo "+mk.name, batches, drops, mk.mode, mk.mode)
		if err != nil {
			c.Violate(scope, int64(i), sigOf(c.Prop, "inputs", "error: "+err.Error()), err.Error(), mk.name)
			continue
		}
		r.run()
		check(scope, int64(i), r)
	}
}

// large1HitMerges: LARGE-1HIT - a term with n postings in one input (n around the multiples of 1024
// that decide the adaptive chunk size) meets the SAME term as a 1-hit entry of a previously merged
// one-document input, whose document is deleted or kept in this merge, in both orders: cardinality
// bookkeeping must count what survives.
func large1HitMerges(c *explore.Ctx, check func(scope string, idx int64, r *mergeRun)) {
	scope := "LARGE-1HIT"
	var idx int64
	for _, nt := range []struct {
		n int
		t string
	}{{1023, "x"}, {1024, "x"}, {1025, "x"}, {2047, "x"}, {2048, "x"}, {1023, ""}, {1024, ""}, {2048, ""}, {2100, ""}} {
		n, tname := nt.n, nt.t // the empty term is the first term of its field
		for dropOne := 0; dropOne < 2; dropOne++ {
			for order := 0; order < 2; order++ {
				my := idx
				idx++
				if !c.MineIdx(scope, my) || c.Expired() {
					continue
				}
				c.Eval()
				c.Nontrivial()
				big := renameTerm(gen.Large(n, 0, 1), "a", "x", tname)
				for j := range big {
					if j%97 == 0 || j == n-1 {
						big[j] = append(gen.Doc{gen.IDField("s0", j)}, big[j]...)
					}
				}
				one := []model.Doc{{gen.IDField("s1", 0), {N: "a", Len: 1, Terms: []model.Term{{T: tname, Freq: 1}}}}}
				r := &mergeRun{cfg: mergeCfg{Name: fmt.Sprintf("large-1hit n=%d term=%q drop-1hit=%v order=%d", n, tname, dropOne == 1, order), InModes: []uint32{1025}, Out: 1025}, alias: true}
				bad := false
				add := func(b []model.Doc, form int, drops []uint32) {
					sg, err := build(b, 1025)
					if err != nil {
						bad = true
						return
					}
					ls := model.Build(b)
					if form != 0 {
						sg, ls, err = inputForm(sg, ls, form, 1025)
						if err != nil {
							bad = true
							return
						}
					}
					r.segs, r.lsegs, r.batches = append(r.segs, sg), append(r.lsegs, ls), append(r.batches, b)
					sp := gen.SegSpec{}
					if drops == nil {
						r.drops, r.dropSets = append(r.drops, nil), append(r.dropSets, nil)
					} else {
						r.drops = append(r.drops, bitmapOf(drops...))
						ds := map[uint64]bool{}
						for _, d := range drops {
							ds[uint64(d)] = true
						}
						r.dropSets = append(r.dropSets, ds)
						sp.DropForm, sp.Drops = 1, drops
					}
					r.specs = append(r.specs, sp)
				}
				var d1 []uint32
				if dropOne == 1 {
					d1 = []uint32{0}
				}
				if order == 0 {
					add(big, 0, nil)
					add(one, 2, d1)
				} else {
					add(one, 2, d1)
					add(big, 0, []uint32{5})
				}
				if bad {
					c.Violate(scope, my, sigOf(c.Prop, "inputs", "error: build"), "building the inputs failed", r.cfg.Name)
					continue
				}
				r.want, r.wantNums = model.Merge(r.lsegs, r.dropSets)
				r.run()
				check(scope, my, r)
			}
		}
	}
}

// againMerges: MERGE-AGAIN - the same segment OBJECTS are merged twice with different deletion
// bitmaps (and once more in swapped order); the LATER merge is checked: nothing an earlier merge
// computed for an input (survivor tables, renumbering, caches) may be carried over.
func againMerges(c *explore.Ctx, check func(scope string, idx int64, r *mergeRun)) {
	scope := "MERGE-AGAIN"
	mk := func(tag string, kinds ...int) []model.Doc {
		var b []model.Doc
		for i, k := range kinds {
			b = append(b, gen.MixDoc(k, tag, i))
		}
		return b
	}
	batches := [][]model.Doc{mk("s0", 2, 1, 4), mk("s1", 1, 2)}
	dropOpts := [][][]uint32{{nil, nil}, {{0}, nil}, {{1, 2}, {0}}, {{0, 1, 2}, nil}, {nil, {0, 1}}, {{}, {1}}}
	var idx int64
	for form := 0; form <= 1; form++ {
		for a := range dropOpts {
			for b := range dropOpts {
				for swap := 0; swap < 2; swap++ {
					my := idx
					idx++
					if a == b && swap == 0 {
						continue
					}
					if !c.MineIdx(scope, my) || c.Expired() {
						continue
					}
					c.Eval()
					c.Nontrivial()
					first, err := manualMerge("again-first", batches, dropOpts[a], 1025)
					if err != nil {
						c.Violate(scope, my, sigOf(c.Prop, "inputs", "error: "+err.Error()), err.Error(), "")
						continue
					}
					if form == 1 {
						for i := range first.segs {
							first.segs[i], first.lsegs[i], err = inputForm(first.segs[i], first.lsegs[i], 1, 1025)
							if err != nil {
								c.Violate(scope, my, sigOf(c.Prop, "inputs", "error: "+err.Error()), err.Error(), "")
							}
						}
					}
					first.run() // result discarded
					second := &mergeRun{cfg: mergeCfg{Name: fmt.Sprintf("again form=%d first-drops=%v swap=%d", form, dropOpts[a], swap), InModes: []uint32{1025}, Out: 1025}, alias: true}
					order := []int{0, 1}
					if swap == 1 {
						order = []int{1, 0}
					}
					for _, i := range order {
						second.segs = append(second.segs, first.segs[i])
						second.lsegs = append(second.lsegs, first.lsegs[i])
						second.batches = append(second.batches, first.batches[i])
						d := dropOpts[b][i]
						sp := gen.SegSpec{}
						if d == nil {
							second.drops = append(second.drops, nil)
							second.dropSets = append(second.dropSets, nil)
						} else {
							second.drops = append(second.drops, bitmapOf(d...))
							ds := map[uint64]bool{}
							for _, x := range d {
								ds[uint64(x)] = true
							}
							second.dropSets = append(second.dropSets, ds)
							sp.DropForm, sp.Drops = 1, d
						}
						second.specs = append(second.specs, sp)
					}
					second.want, second.wantNums = model.Merge(second.lsegs, second.dropSets)
					second.run()
					check(scope, my, second)
				}
			}
		}
	}
}

// termMerges: MERGE-TERM - one (field, term) whose posting in each document is one of {absent,
// freq 1, freq 1 + location, freq 2 + location, freq 300 + 2 locations}: every pair of segments of
// <= 2 such documents, inputs built or previously merged (a lone freq-1 posting without locations
// then arrives 1-hit encoded), with and without a deletion: every combination of payload kinds
// meeting in one merged postings list.
func termMerges(c *explore.Ctx, check func(scope string, idx int64, r *mergeRun)) {
	payload := func(k, i int) []model.Term {
		switch k {
		case 1:
			return []model.Term{{T: "x", Freq: 1}}
		case 2:
			return []model.Term{{T: "x", Freq: 1, Locs: []model.Loc{{P: 1 + i, S: 125, E: 130}}}}
		case 3:
			return []model.Term{{T: "x", Freq: 2, Locs: []model.Loc{{P: 2 + i, S: 3, E: 4}}}}
		case 4:
			return []model.Term{gen.TermKind("x", gen.KF300L2, "")}
		}
		return nil
	}
	var segOpts [][]int
	segOpts = append(segOpts, []int{})
	for a := 0; a < 5; a++ {
		segOpts = append(segOpts, []int{a})
		for b := 0; b < 5; b++ {
			segOpts = append(segOpts, []int{a, b})
		}
	}
	mk := func(tag string, kinds []int) []model.Doc {
		var b []model.Doc
		for i, k := range kinds {
			d := model.Doc{gen.IDField(tag, i)}
			ts := append(payload(k, i), model.Term{T: "other", Freq: 1})
			n := 0
			for _, t := range ts {
				n += t.Freq
			}
			d = append(d, model.Field{N: "a", Len: n, Terms: ts})
			b = append(b, d)
		}
		return b
	}
	var idx int64
	for form := 0; form <= 2; form += 2 {
		scope := fmt.Sprintf("MERGE-TERM/form%d", form)
		for _, k0 := range segOpts {
			for _, k1 := range segOpts {
				for drop := 0; drop < 2; drop++ {
					my := idx
					idx++
					if drop == 1 && len(k0) == 0 {
						continue
					}
					if !c.MineIdx(scope, my) || c.Expired() {
						continue
					}
					c.Eval()
					cfg := mergeCfg{Name: fmt.Sprintf("term-form%d", form), InModes: []uint32{1025}, Form: form, Out: 1025}
					r := &mergeRun{cfg: cfg}
					bad := false
					for i, ks := range [][]int{k0, k1} {
						batch := mk(fmt.Sprintf("s%d", i), ks)
						seg, err := build(batch, 1025)
						if err != nil {
							c.Violate(scope, my, sigOf(c.Prop, "inputs", "error: "+err.Error()), err.Error(), fmt.Sprint(k0, k1))
							bad = true
							break
						}
						ls := model.Build(batch)
						seg, ls, err = inputForm(seg, ls, form, 1025)
						if err != nil {
							c.Violate(scope, my, sigOf(c.Prop, "inputs", "error: "+err.Error()), err.Error(), fmt.Sprint(k0, k1))
							bad = true
							break
						}
						r.batches = append(r.batches, batch)
						r.segs = append(r.segs, seg)
						r.lsegs = append(r.lsegs, ls)
						sp := gen.SegSpec{}
						if i == 0 && drop == 1 {
							r.drops = append(r.drops, bitmapOf(0))
							r.dropSets = append(r.dropSets, map[uint64]bool{0: true})
							sp.DropForm, sp.Drops = 1, []uint32{0}
						} else {
							r.drops = append(r.drops, nil)
							r.dropSets = append(r.dropSets, nil)
						}
						r.specs = append(r.specs, sp)
					}
					if bad {
						continue
					}
					r.cfg.Name = fmt.Sprintf("term-form%d payloads=%v|%v", form, k0, k1)
					r.want, r.wantNums = model.Merge(r.lsegs, r.dropSets)
					c.Nontrivial()
					r.run()
					check(scope, my, r)
				}
			}
		}
	}
}

// manualMerge builds a merge case from explicit batches.
func manualMerge(name string, batches [][]model.Doc, drops [][]uint32, out uint32) (*mergeRun, error) {
	return manualMergeIn(name, batches, drops, 1025, out)
}

func manualMergeIn(name string, batches [][]model.Doc, drops [][]uint32, in, out uint32) (*mergeRun, error) {
	r := &mergeRun{cfg: mergeCfg{Name: name, InModes: []uint32{in}, Out: out}}
	for i, b := range batches {
		seg, err := build(b, in)
		if err != nil {
			return nil, fmt.Errorf("build input %d: %w", i, err)
		}
		r.batches = append(r.batches, b)
		r.segs = append(r.segs, seg)
		r.lsegs = append(r.lsegs, model.Build(b))
		sp := gen.SegSpec{}
		if drops[i] == nil {
			r.drops = append(r.drops, nil)
			r.dropSets = append(r.dropSets, nil)
		} else {
			r.drops = append(r.drops, bitmapOf(drops[i]...))
			ds := map[uint64]bool{}
			for _, d := range drops[i] {
				ds[uint64(d)] = true
			}
			r.dropSets = append(r.dropSets, ds)
			sp.DropForm, sp.Drops = 1, drops[i]
		}
		r.specs = append(r.specs, sp)
	}
	r.want, r.wantNums = model.Merge(r.lsegs, r.dropSets)
	return r, nil
}

// extremeMerges: MERGE-EXTREME - every EXTREME batch merged alone with a deletion, and with a
// small partner in both orders (re-encode path; 1-hit candidates; renumbering).
func extremeMerges(c *explore.Ctx, check func(scope string, idx int64, r *mergeRun)) {
	extremeMergesOpt(c, check, false)
}

// sumLen: normalise the reported field lengths to the sum of term frequencies (C16's contract).
func extremeMergesOpt(c *explore.Ctx, check func(scope string, idx int64, r *mergeRun), sumLen bool) {
	scope := "MERGE-EXTREME"
	partner := []model.Doc{gen.MixDoc(2, "p", 0), gen.MixDoc(1, "p", 1)}
	if sumLen {
		model.SumFreqLen(partner)
	}
	var idx int64
	for _, e := range gen.Extremes() {
		if sumLen {
			model.SumFreqLen(e.Batch)
		}
		type v struct {
			name    string
			batches [][]model.Doc
			drops   [][]uint32
		}
		vs := []v{
			{"alone-drop0", [][]model.Doc{e.Batch}, [][]uint32{{0}}},
			{"alone-nodrop", [][]model.Doc{e.Batch}, [][]uint32{nil}},
			{"with-partner", [][]model.Doc{e.Batch, partner}, [][]uint32{{1}, nil}},
			{"partner-first", [][]model.Doc{partner, e.Batch}, [][]uint32{{0}, {}}},
			{"twice", [][]model.Doc{e.Batch, e.Batch}, [][]uint32{nil, {0}}},
		}
		for _, x := range vs {
			for _, out := range []uint32{1025, 2} {
				my := idx
				idx++
				if e.Heavy && (out != 1025 || x.name == "alone-nodrop" || x.name == "twice") {
					continue
				}
				if !c.MineIdx(scope, my) || c.Expired() {
					continue
				}
				c.Eval()
				c.Nontrivial()
				r, err := manualMerge(fmt.Sprintf("extreme %s %s", e.Name, x.name), x.batches, x.drops, out)
				if err != nil {
					c.Violate(scope, my, sigOf(c.Prop, "inputs", "error: "+err.Error()), err.Error(), e.Name)
					continue
				}
				r.alias = true // ids repeat in the "twice" variant
				r.run()
				check(scope, my, r)
			}
		}
	}
}

// normMerges: the MERGE(2,3,2) sweep under norms with unusual float32 bit patterns (the merger
// packs the norm of a single surviving posting into the 1-hit dictionary value).
func normMerges(c *explore.Ctx, check func(scope string, idx int64, r *mergeRun)) {
	for _, nm := range model.NormModes() {
		cfg := mergeCfgsQuick[0]
		cfg.Name = fmt.Sprintf("%s-norms%d", cfg.Name, nm)
		model.WithNormMode(nm, func() {
			mergeSweep(c, 2, 3, 2, []mergeCfg{cfg}, check)
		})
	}
}

// aliasMerges: MERGE-ALIAS - the same segment object twice in one input list ([S,S] and [S,T,S])
// with every pair of deletion bitmaps: per-segment state of the merger must be per list POSITION.
func aliasMerges(c *explore.Ctx, check func(scope string, idx int64, r *mergeRun)) {
	scope := "MERGE-ALIAS"
	var idx int64
	K := 4
	partner := []model.Doc{gen.MixDoc(gen.MergeKinds[1], "t", 0)}
	for n := 0; n <= 2; n++ {
		gen.Pow(K, n, func(v []int) bool {
			kinds := append([]int(nil), v...)
			var dropOpts []gen.SegSpec
			for _, o := range gen.SegOptions(1, n) { // deletion options for n documents
				if len(o.Kinds) == n {
					dropOpts = append(dropOpts, gen.SegSpec{Kinds: kinds, Drops: o.Drops, DropForm: o.DropForm})
				}
			}
			for _, d0 := range dropOpts {
				for _, d1 := range dropOpts {
					for withPartner := 0; withPartner < 2; withPartner++ {
						my := idx
						idx++
						if !c.MineIdx(scope, my) {
							continue
						}
						c.Eval()
						batch := d0.Batch("s0")
						seg, err := build(batch, 1025)
						if err != nil {
							c.Violate(scope, my, sigOf(c.Prop, "inputs", "error: "+err.Error()), err.Error(), fmt.Sprint(kinds))
							continue
						}
						ls := model.Build(batch)
						r := &mergeRun{cfg: mergeCfg{Name: "alias", InModes: []uint32{1025}, Out: 1025}, alias: true}
						add := func(sg segment.Segment, l *model.LSeg, b []model.Doc, sp gen.SegSpec) {
							r.segs = append(r.segs, sg)
							r.lsegs = append(r.lsegs, l)
							r.batches = append(r.batches, b)
							r.specs = append(r.specs, sp)
							if sp.DropForm == 0 {
								r.drops = append(r.drops, nil)
								r.dropSets = append(r.dropSets, nil)
							} else {
								r.drops = append(r.drops, bitmapOf(sp.Drops...))
								ds := map[uint64]bool{}
								for _, d := range sp.Drops {
									ds[uint64(d)] = true
								}
								r.dropSets = append(r.dropSets, ds)
							}
						}
						add(seg, ls, batch, d0)
						if withPartner == 1 {
							pseg, err := build(partner, 1025)
							if err != nil {
								panic(err)
							}
							add(pseg, model.Build(partner), partner, gen.SegSpec{Kinds: []int{1}})
						}
						add(seg, ls, batch, d1)
						r.want, r.wantNums = model.Merge(r.lsegs, r.dropSets)
						if n > 0 {
							c.Nontrivial()
						}
						r.run()
						check(scope, my, r)
					}
				}
			}
			return !c.Expired()
		})
	}
}

// countMergeShape records which mechanisms the merge exercised.
func countMergeShape(c *explore.Ctx, r *mergeRun, got *obs.Obs) {
	same := true
	for i := range r.lsegs {
		if strings.Join(r.lsegs[i].Fields, ",") != strings.Join(r.lsegs[0].Fields, ",") {
			same = false
		}
	}
	copyPath := false
	for _, s := range r.specs {
		if same && len(s.Drops) == 0 {
			copyPath = true
		} else {
			c.Count("segments_reencode_path")
		}
	}
	if copyPath {
		c.Count("merges_using_copy_path")
	}
	if r.zeroSurvivors() {
		c.Count("zero_survivor_merges")
	}
}

// largeMerges: a few merges crossing cardinality 1024 / 1024-document boundaries.
func largeMerges(c *explore.Ctx, check func(scope string, idx int64, r *mergeRun)) {
	// implemented via explicit batches (not SegSpec): see largeMergeCase
	// a negative size n means: a small segment of -n documents that has the field but not the
	// term (so the term's iterator index differs from its position among the term's iterators)
	sizes := [][2]int{{1023, 2}, {1024, 1025}, {600, 600}, {-3, 2048}, {2048, -3}, {66000, 3}, {40000, 30000}, {9000, 9000}, {12000, 9000}}
	if c.Thorough() {
		sizes = append(sizes, [2]int{2049, 1}, [2]int{1025, 1024}, [2]int{1500, 1600}, [2]int{-1, 3073}, [2]int{-5, 1100})
	}
	var idx int64
	for _, sz := range sizes {
		for pat := 0; pat < 3; pat++ {
			for dropPat := 0; dropPat < 3; dropPat++ {
				for _, out := range []uint32{1025, 1024} {
					scope := "MERGE-LARGE"
					if sz[0] > 30000 && (pat != 0 || out != 1025) {
						idx++
						continue // the 66 000-document merges (new numbers cross 65 536): one pattern, adaptive output
					}
					if c.MineIdx(scope, idx) && !c.Expired() {
						c.Eval()
						c.Nontrivial()
						r := largeMergeCase(sz[0], sz[1], pat, dropPat, out)
						r.run()
						check(scope, idx, r)
					}
					idx++
				}
			}
		}
	}
}

func largeMergeCase(n0, n1, pat, dropPat int, out uint32) *mergeRun {
	r := &mergeRun{cfg: mergeCfg{Name: fmt.Sprintf("large n=%d,%d pat=%d drop=%d", n0, n1, pat, dropPat), InModes: []uint32{1025}, Out: out}}
	for i, n := range []int{n0, n1} {
		var batch []model.Doc
		if n < 0 {
			n = -n
			for j := 0; j < n; j++ {
				batch = append(batch, model.Doc{{N: "a", Len: 1, Terms: []model.Term{{T: "w", Freq: 1}}}})
			}
		} else {
			batch = gen.Large(n, pat, 1)
		}
		// give every 97th doc an _id so that C03's content check has anchors
		for j := range batch {
			if j%97 == 0 || j == n-1 {
				batch[j] = append(gen.Doc{gen.IDField(fmt.Sprintf("s%d", i), j)}, batch[j]...)
			}
			if j%3 == 1 {
				f := gen.Field{N: "d", Len: 1, Terms: []gen.Term{{T: fmt.Sprintf("t%d", j%5), Freq: 1}}, DV: true}
				batch[j] = append(batch[j], f)
			}
		}
		seg, err := build(batch, 1025)
		if err != nil {
			panic(err)
		}
		r.batches = append(r.batches, batch)
		r.segs = append(r.segs, seg)
		r.lsegs = append(r.lsegs, model.Build(batch))
		var bm *roaring.Bitmap
		var ds map[uint64]bool
		switch dropPat {
		case 1:
			bm, ds = roaring.New(), map[uint64]bool{}
			for j := i % 2; j < n; j += 2 { // the even documents of the first input, the odd ones of the second
				bm.Add(uint32(j))
				ds[uint64(j)] = true
			}
		case 2:
			bm, ds = roaring.New(), map[uint64]bool{}
			for j := 0; j < n; j++ {
				if j%1024 < 3 || (n > 10 && j > n/2-75) || (i == 1 && j > 10) {
					bm.Add(uint32(j))
					ds[uint64(j)] = true
				}
			}
		}
		r.drops = append(r.drops, bm)
		r.dropSets = append(r.dropSets, ds)
		sp := gen.SegSpec{}
		if bm != nil {
			sp.DropForm = 1
			sp.Drops = bm.ToArray()
		}
		r.specs = append(r.specs, sp)
	}
	r.want, r.wantNums = model.Merge(r.lsegs, r.dropSets)
	return r
}
