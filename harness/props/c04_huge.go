package props

import (
	"fmt"
	"strings"

	segment "github.com/blugelabs/bluge_segment_api"

	"verifharness/explore"
	"verifharness/gen"
	"verifharness/model"
)

// c04Huge: HUGE-200K - a segment of 200 000 small documents (1563 stored blocks: the table of block
// offsets is longer than 4 KiB; 196 doc-value chunks; three-byte document numbers) persisted and
// loaded memory- and file-backed. A full observation of such a segment costs minutes, so the
// oracle here is a PROBE: the document count, and for the first and last two documents of every
// stored block (6252 documents) the stored fields, the doc values and the `_id` term's postings,
// compared between the original, both loaded forms and the values the batch was made from.
func c04Huge(c *explore.Ctx) {
	scope := "HUGE-200K"
	if !c.MineIdx(scope, 0) || c.Expired() {
		return
	}
	c.Eval()
	c.Nontrivial()
	n := 200000
	batch := make([]model.Doc, n)
	for i := range batch {
		batch[i] = model.Doc{gen.IDField("doc-", i)}
		if i%128 == 127 || i >= n-3 {
			batch[i] = append(batch[i], model.Field{N: "b", Len: 1, DV: true, Terms: []model.Term{{T: fmt.Sprintf("t%d", i%11), Freq: 1}}})
		}
	}
	cas := "HUGE-200K: 200000 documents, stored _id doc-<i>, doc values on the last document of every block"
	orig, err := build(batch, 1025)
	if err != nil {
		c.Violate(scope, 0, sigOf("C04", "build", "error: "+err.Error()), err.Error(), cas)
		return
	}
	b, nn, err := persist(orig)
	if err != nil {
		c.Violate(scope, 0, sigOf("C04", "persist", "error: "+err.Error()), err.Error(), cas)
		return
	}
	if nn != int64(len(b)) {
		c.Violate(scope, 0, "C04/byte-count", fmt.Sprintf("WriteTo reported %d bytes, wrote %d", nn, len(b)), cas)
		return
	}
	lm, err := loadMem(b)
	if err != nil {
		c.Violate(scope, 0, sigOf("C04", "load", "error: "+err.Error())+"/mem", err.Error(), cas)
		return
	}
	lf, closeF, err := loadFile(b)
	if err != nil {
		c.Violate(scope, 0, sigOf("C04", "load", "error: "+err.Error())+"/file", err.Error(), cas)
		return
	}
	defer closeF()
	probe := func(sg segment.Segment, d uint64) (out string) {
		msg := explore.Guard(func() {
			var sb strings.Builder
			err := sg.VisitStoredFields(d, func(f string, v []byte) bool { fmt.Fprintf(&sb, "%s=%q,", f, v); return true })
			if err != nil {
				out = "ERR stored: " + err.Error()
				return
			}
			r, err := sg.DocumentValueReader([]string{"b"})
			if err != nil {
				out = "ERR dv: " + err.Error()
				return
			}
			if err = r.VisitDocumentValues(d, func(f string, t []byte) { fmt.Fprintf(&sb, " dv %s=%q", f, t) }); err != nil {
				out = "ERR dv: " + err.Error()
				return
			}
			dict, err := sg.Dictionary("_id")
			if err != nil {
				out = "ERR dict: " + err.Error()
				return
			}
			pl, err := dict.PostingsList([]byte(fmt.Sprintf("doc-%d", d)), nil, nil)
			if err != nil {
				out = "ERR postings: " + err.Error()
				return
			}
			it, err := pl.Iterator(true, true, true, nil)
			if err != nil {
				out = "ERR iterator: " + err.Error()
				return
			}
			for {
				p, err := it.Next()
				if err != nil {
					out = "ERR next: " + err.Error()
					return
				}
				if p == nil {
					break
				}
				fmt.Fprintf(&sb, " posting %d/%d", p.Number(), p.Frequency())
			}
			out = sb.String()
		})
		if msg != "" {
			return msg
		}
		return out
	}
	names := []string{"original", "loaded-mem", "loaded-file"}
	segs := []segment.Segment{orig, lm, lf}
	for si, sg := range segs {
		if sg.Count() != uint64(n) {
			c.Violate(scope, 0, "C04/"+names[si]+"/wrong/count", fmt.Sprintf("Count()=%d, want %d", sg.Count(), n), cas)
			return
		}
	}
	for d := 0; d < n; d++ {
		if m := d % 128; !(m <= 1 || m >= 126 || d >= n-3) {
			continue
		}
		want := fmt.Sprintf("_id=%q,", fmt.Sprintf("doc-%d", d))
		if d%128 == 127 || d >= n-3 {
			want += fmt.Sprintf(" dv b=%q", fmt.Sprintf("t%d", d%11))
		}
		want += fmt.Sprintf(" posting %d/1", d)
		for si, sg := range segs {
			c.R.Transitions++
			if got := probe(sg, uint64(d)); got != want {
				c.Violate(scope, 0, sigOf("C04", names[si], "wrong: probe"), fmt.Sprintf("document %d of the %s segment: got %.300s want %s", d, names[si], got, want), cas)
				return
			}
		}
	}
}
