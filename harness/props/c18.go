package props

import (
	"fmt"
	"sort"
	"strings"

	"github.com/RoaringBitmap/roaring"
	segment "github.com/blugelabs/bluge_segment_api"

	"verifharness/explore"
	"verifharness/gen"
	"verifharness/model"
)

func init() {
	register(&explore.Prop{
		ID: "C18", Level: levelMC, Explorer: "E1 input-space enumerator",
		Rule: "segments = MIX batches and three batches with an indexed field whose name is the empty string (built, persisted+loaded, self-merged so that single-doc terms are 1-hit encoded, and the empty batch) x every list of <=3 (thorough <=4) (field, term) pairs over fields {_id, a, b, unknown, \"\"} x terms {general, 1-hit candidate, doc id, absent}, repeats allowed; plus LONG-LIST: lists of 255…4097 (thorough …65 537) entries on a 130-document segment (built, loaded, merged), composed of up to three blocks each cycling through one field's candidates (existing, absent, repeated terms; an unknown field) with every way of giving all but one or two entries to one block, and strictly alternating lists; a 130-document segment with every list of <=2 pairs and lists of <=6 pairs over a 3-pair alphabet; result bitmap compared with the model's union; " +
			"distinct = (segment, form, list); non-trivial = list has >=2 entries with a field switch, or names an unknown/empty field",
		Assumptions: commonAssumptions, Budget: qBudget, Run: runC18,
	})
}

type pairT struct{ f, t string }

func (p pairT) Field() string { return p.f }
func (p pairT) Term() []byte  { return []byte(p.t) }

func runC18(c *explore.Ctx) {
	fields := []string{"_id", "a", "b", "nosuch", ""}
	// "ax" under the field "" and "x" under the field "a" have the same concatenation field+term
	terms := []string{"x", "um0", "m0", "zz", "ax"}
	var pairs []pairT
	for _, f := range fields {
		for _, t := range terms {
			pairs = append(pairs, pairT{f, t})
		}
	}
	maxLen := 3
	K, nd := 6, 3
	if c.Thorough() {
		maxLen = 4
	}
	forms := []string{"built", "loaded", "merged"}
	// besides MIX: batches in which a field with the EMPTY NAME is indexed (then "" is a known field)
	emptyNamed := func(yield func(bidx int64, batch []gen.Doc, kinds []int) bool) {
		for v := 0; v < 3; v++ {
			batch := []gen.Doc{gen.MixDoc(2, "m", 0), gen.MixDoc(1, "m", 1), gen.MixDoc(2, "m", 2)}
			for d := range batch {
				if (d+v)%2 == 0 {
					batch[d] = append(batch[d], gen.Field{N: "", Len: 1, Terms: []gen.Term{{T: "x", Freq: 1}, {T: "zz", Freq: 1}}[:1+v%2]})
				}
			}
			if !yield(int64(1000000+v), batch, []int{-1, v}) {
				return
			}
		}
	}
	enumerate := func(yield func(bidx int64, batch []gen.Doc, kinds []int) bool) {
		emptyNamed(yield)
		gen.Mix(K, nd, "m", yield)
	}
	// a 130-document segment (two stored blocks, multi-document lists) with every list of <=2 pairs,
	// and lists of up to 6 pairs over a 3-pair alphabet on a small segment
	if c.Shard == 0 || c.Replay {
		c18Extra(c)
	}
	if !c.Replay || strings.HasPrefix(c.ReplayScope, "LONG-LIST/") {
		c18Long(c)
		if c.Replay {
			return
		}
	}
	if !c.Replay || c.ReplayScope == "ZOO" {
		zooEach(c, true, func(idx int64, z *zooSeg) { zooMatching(c, idx, z) })
		if c.Replay {
			return
		}
	}
	enumerate(func(bidx int64, batch []gen.Doc, kinds []int) bool {
		ls := model.Build(batch)
		for fi, form := range forms {
			scope := fmt.Sprintf("MIX(%d,%d)#%d/%s", K, nd, bidx, form)
			// one worker owns a whole (batch, form): build once
			if !c.Replay && int((bidx*3+int64(fi))%int64(c.NShards)) != c.Shard {
				continue
			}
			if c.Replay && c.ReplayScope != scope {
				continue
			}
			c.Begin(scope, 0)
			seg, err := build(batch, 1025)
			if err != nil {
				c.Violate(scope, 0, sigOf("C18", "build", "error: "+err.Error()), err.Error(), model.BatchString(batch))
				continue
			}
			want := ls
			seg, want, err = inputForm(seg, ls, fi, 1025)
			if err != nil {
				c.Violate(scope, 0, sigOf("C18", "form", "error: "+err.Error()), err.Error(), model.BatchString(batch))
				continue
			}
			var idx int64
			for n := 0; n <= maxLen; n++ {
				gen.Pow(len(pairs), n, func(v []int) bool {
					myIdx := idx
					idx++
					if c.Replay && myIdx != c.ReplayIndex {
						return true
					}
					c.Eval()
					c.R.Distinct++
					list := make([]segment.Term, n)
					wantSet := map[uint32]bool{}
					switches, unknown := 0, false
					for i, pi := range v {
						p := pairs[pi]
						list[i] = p
						if i > 0 && pairs[v[i-1]].f != p.f {
							switches++
						}
						if !want.HasField(p.f) {
							unknown = true
						}
						for _, d := range want.Postings(p.f, p.t) {
							wantSet[uint32(d)] = true
						}
					}
					if (n >= 2 && switches > 0) || unknown {
						c.Nontrivial()
					}
					cas := fmt.Sprintf("%s list=%v batch=%s", scope, list, model.BatchString(batch))
					c.Sample(myIdx, func() string { return cas })
					var bm *roaring.Bitmap
					var err error
					msg := explore.Guard(func() { bm, err = seg.DocsMatchingTerms(list) })
					if msg != "" || err != nil {
						sig := sigOf("C18", form, "error: "+errText(msg, err))
						if unknown {
							sig += "/unknown-field"
						}
						c.Violate(scope, myIdx, sig, errText(msg, err), cas)
						return !c.Expired()
					}
					got := bm.ToArray()
					var w []uint32
					for d := range wantSet {
						w = append(w, d)
					}
					sort.Slice(w, func(i, j int) bool { return w[i] < w[j] })
					c.Outcome(explore.Hash(fmt.Sprint(got)))
					if fmt.Sprint(got) != fmt.Sprint(w) {
						c.Violate(scope, myIdx, "C18/"+form+"/wrong", fmt.Sprintf("got %v want %v", got, w), cas)
					}
					// the result belongs to the caller: scribbling over it must not reach anything the
					// segment answers later lists from (the same segment object serves every list)
					explore.Guard(func() { bm.Clear(); bm.Add(1 << 20); bm.Add(0) })
					return !c.Expired()
				})
			}
		}
		return !c.Expired()
	})
}

func c18Extra(c *explore.Ctx) {
	type cs struct {
		name   string
		batch  []gen.Doc
		pairs  []pairT
		maxLen int
	}
	big := c09Batch()
	cases := []cs{
		{"BIG130", big, []pairT{{"a", "x"}, {"a", "u3"}, {"a", "u39"}, {"_id", "r7"}, {"_id", "r129"}, {"b", "t1"}, {"b", "t6"}, {"nosuch", "x"}, {"a", "zz"}}, 2},
		{"LONGLIST", []gen.Doc{gen.MixDoc(2, "m", 0), gen.MixDoc(1, "m", 1), gen.MixDoc(2, "m", 2), gen.MixDoc(1, "m", 3)}, []pairT{{"a", "x"}, {"a", "um1"}, {"_id", "m3"}}, 6},
	}
	{
		// 66 000 documents: matching documents span two roaring containers
		huge := gen.Large(66000, 1, 1)
		for _, j := range []int{0, 65535, 65536, 65537, 65999} {
			huge[j] = append(gen.Doc{gen.IDField("h", j)}, huge[j]...)
		}
		cases = append(cases, cs{"HUGE66000", huge, []pairT{{"a", "x"}, {"a", "y"}, {"_id", "h65536"}, {"_id", "h65535"}, {"a", "nosuch"}}, 2})
		// the same with the term in EVERY document: its postings bitmap consists of run containers
		dense := gen.Large(66000, 0, 1)
		for _, j := range []int{0, 65535, 65536, 65999} {
			dense[j] = append(gen.Doc{gen.IDField("h", j)}, dense[j]...)
		}
		cases = append(cases, cs{"HUGE66000-dense", dense, []pairT{{"a", "x"}, {"a", "y"}, {"_id", "h65536"}, {"a", "nosuch"}}, 2})
	}
	for _, cse := range cases {
		ls := model.Build(cse.batch)
		for fi, form := range []string{"built", "loaded", "merged"} {
			scope := "EXTRA-" + cse.name + "/" + form
			if c.Replay && c.ReplayScope != scope {
				continue
			}
			c.Begin(scope, 0)
			seg, err := build(cse.batch, 1025)
			if err != nil {
				c.Violate(scope, 0, sigOf("C18", "build", "error: "+err.Error()), err.Error(), cse.name)
				continue
			}
			want := ls
			seg, want, err = inputForm(seg, ls, fi, 1025)
			if err != nil {
				c.Violate(scope, 0, sigOf("C18", "form", "error: "+err.Error()), err.Error(), cse.name)
				continue
			}
			var idx int64
			for n := 0; n <= cse.maxLen; n++ {
				gen.Pow(len(cse.pairs), n, func(v []int) bool {
					my := idx
					idx++
					if c.Replay && my != c.ReplayIndex {
						return true
					}
					c.Eval()
					c.R.Distinct++
					c.Nontrivial()
					list := make([]segment.Term, n)
					wantSet := map[uint32]bool{}
					for i, pi := range v {
						list[i] = cse.pairs[pi]
						for _, d := range want.Postings(cse.pairs[pi].f, cse.pairs[pi].t) {
							wantSet[uint32(d)] = true
						}
					}
					var bm *roaring.Bitmap
					var err error
					msg := explore.Guard(func() { bm, err = seg.DocsMatchingTerms(list) })
					cas := fmt.Sprintf("%s list=%v", scope, list)
					if msg != "" || err != nil {
						c.Violate(scope, my, sigOf("C18", form, "error: "+errText(msg, err)), errText(msg, err), cas)
						return true
					}
					var w []uint32
					for d := range wantSet {
						w = append(w, d)
					}
					sort.Slice(w, func(i, j int) bool { return w[i] < w[j] })
					if fmt.Sprint(bm.ToArray()) != fmt.Sprint(w) {
						c.Violate(scope, my, "C18/"+form+"/wrong", fmt.Sprintf("got %v want %v", bm.ToArray(), w), cas)
					}
					return true
				})
			}
		}
	}
}

// c18Long: LISTS OF MANY ENTRIES. The lists of the other families have at most 3 (6) entries; here the
// list length walks across 255/256/257, 1023/1024/1025, 4095/4096/4097 and 65 537 while the list
// is composed of up to three blocks, each block cycling through the candidates of one field
// (existing, absent and repeated terms; an unknown field), with every way of giving all but one
// or two entries to one block, plus the strictly alternating list.
func c18Long(c *explore.Ctx) {
	batch := c09Batch()
	ls := model.Build(batch)
	cands := [][]pairT{
		{}, // _id: filled below
		{{"b", "t6"}, {"b", "t1"}, {"b", "nosuch"}, {"b", "t6"}},
		{{"a", "x"}, {"a", "u39"}, {"a", "zz"}, {"a", "u3"}, {"a", ""}},
		{{"nosuch", "x"}, {"nosuch", ""}},
		{{"a", "u7"}},
	}
	for i := 0; i < 130; i += 3 {
		cands[0] = append(cands[0], pairT{"_id", fmt.Sprintf("r%d", i)}, pairT{"_id", fmt.Sprintf("q%d", i)})
	}
	lens := []int{255, 256, 257, 1023, 1024, 1025, 4095, 4096, 4097}
	if c.Thorough() {
		lens = append(lens, 2047, 2048, 2049, 65535, 65536, 65537)
	}
	type shape = c18Shape
	var shapes []shape
	nf := len(cands)
	for a := 0; a < nf; a++ {
		shapes = append(shapes, shape{[]int{a}, 0})
		for b := 0; b < nf; b++ {
			if a == b {
				continue
			}
			for sp := 0; sp < 4; sp++ { // (L-1,1) (1,L-1) halves alternating
				shapes = append(shapes, shape{[]int{a, b}, sp})
			}
			for d := 0; d < nf; d++ {
				if d == b {
					continue
				}
				for sp := 0; sp < 3; sp++ { // (L-2,1,1) (1,L-2,1) (1,1,L-2)
					shapes = append(shapes, shape{[]int{a, b, d}, sp})
				}
			}
		}
	}
	// LATE NEWCOMER shapes: a first block that matches many documents through one field (ids of all
	// documents lacking the newcomer), a long middle block of another field that only repeats terms
	// matching nothing new, and as the very last entry a term of the middle block's field that
	// matches documents not matched so far (anything that decides half-way that a field "is done").
	// Candidate sets 5.. are used by these shapes only.
	late := len(cands)
	var idsWithout []pairT
	for i := 0; i < 130; i++ {
		if !(i%2 == 0 && i%7 == 3) && i%40 != 11 && i != 1 {
			idsWithout = append(idsWithout, pairT{"_id", fmt.Sprintf("r%d", i)})
		}
	}
	cands = append(cands,
		idsWithout,                            // 5: _id of every document that has neither b:t3 nor a:u11 and is not r1
		[]pairT{{"b", "t6"}, {"b", "nosuch"}}, // 6: b, narrow
		[]pairT{{"b", "t3"}},                  // 7: the newcomer of b
		[]pairT{{"a", "u39"}, {"a", "zz"}},    // 8: a, narrow
		[]pairT{{"a", "u11"}},                 // 9: the newcomer of a
		[]pairT{{"_id", "r0"}, {"_id", "q0"}}, // 10: _id, narrow
		[]pairT{{"_id", "r1"}},                // 11: the newcomer of _id
		[]pairT{{"a", "x"}},                   // 12: every document
	)
	type lateShape = struct{ first, mid, last, nFirst int }
	var lates []lateShape
	for _, first := range []int{late, late + 7} {
		for _, ml := range [][2]int{{late + 1, late + 2}, {late + 3, late + 4}, {late + 5, late + 6}} {
			for _, nFirst := range []int{1, 200} {
				lates = append(lates, lateShape{first, ml[0], ml[1], nFirst})
			}
		}
	}
	for fi, form := range []string{"built", "loaded", "merged"} {
		scope := "LONG-LIST/" + form
		if c.Replay && c.ReplayScope != scope {
			continue
		}
		seg, err := build(batch, 1025)
		if err != nil {
			envFail(c, "C18 LONG-LIST build: "+err.Error())
			return
		}
		want := ls
		seg, want, err = inputForm(seg, ls, fi, 1025)
		if err != nil {
			envFail(c, "C18 LONG-LIST input form: "+err.Error())
			return
		}
		var idx int64
		for _, L := range lens {
			for _, sh := range append(append([]shape{}, shapes...), lateAsShapes(lates)...) {
				my := idx
				idx++
				if !c.MineIdx(scope, my) {
					continue
				}
				if c.Expired() {
					return
				}
				c.Eval()
				c.Nontrivial()
				// block lengths
				var bl []int
				switch len(sh.blocks) {
				case 1:
					bl = []int{L}
				case 2:
					bl = [][]int{{L - 1, 1}, {1, L - 1}, {L / 2, L - L/2}, nil}[sh.split]
				case 3:
					if sh.split >= 100 { // late newcomer: (nFirst, the rest, 1)
						bl = []int{sh.split - 100, L - (sh.split - 100) - 1, 1}
					} else {
						bl = [][]int{{L - 2, 1, 1}, {1, L - 2, 1}, {1, 1, L - 2}}[sh.split]
					}
				}
				list := make([]segment.Term, 0, L)
				wantSet := map[uint32]bool{}
				add := func(p pairT) {
					list = append(list, p)
					for _, d := range want.Postings(p.f, p.t) {
						wantSet[uint32(d)] = true
					}
				}
				if bl == nil { // alternating
					for i := 0; i < L; i++ {
						cs := cands[sh.blocks[i%2]]
						add(cs[(i/2)%len(cs)])
					}
				} else {
					for bi, n := range bl {
						cs := cands[sh.blocks[bi]]
						for i := 0; i < n; i++ {
							add(cs[i%len(cs)])
						}
					}
				}
				cas := fmt.Sprintf("%s #%d length=%d blocks=%v split=%d (block k cycles through candidate set blocks[k]; candidate sets: 0=_id r0,q0,r3,q3,... 1=b 2=a 3=unknown field 4=a:u7 5=ids of the documents lacking the newcomers 6/7=b narrow/newcomer 8/9=a 10/11=_id 12=a:x; split>=100: blocks of split-100, the rest, 1 entries)", scope, my, L, sh.blocks, sh.split)
				c.Sample(my, func() string { return cas })
				var bm *roaring.Bitmap
				msg := explore.Guard(func() { bm, err = seg.DocsMatchingTerms(list) })
				if msg != "" || err != nil {
					c.Violate(scope, my, sigOf("C18", form, "error: "+errText(msg, err)), errText(msg, err), cas)
					continue
				}
				var w []uint32
				for d := range wantSet {
					w = append(w, d)
				}
				sort.Slice(w, func(i, j int) bool { return w[i] < w[j] })
				if fmt.Sprint(bm.ToArray()) != fmt.Sprint(w) {
					c.Violate(scope, my, "C18/"+form+"/wrong", fmt.Sprintf("got %d documents, want %d (got %v want %v)", bm.GetCardinality(), len(w), clipU(bm.ToArray()), clipU(w)), cas)
				}
			}
		}
	}
}

type c18Shape struct {
	blocks []int // candidate set per block
	split  int   // >= 100: late-newcomer shape with a first block of split-100 entries
}

func lateAsShapes(ls []struct{ first, mid, last, nFirst int }) []c18Shape {
	var out []c18Shape
	for _, l := range ls {
		out = append(out, c18Shape{[]int{l.first, l.mid, l.last}, 100 + l.nFirst})
	}
	return out
}
