//go:build verifpools

package props

import (
	"github.com/blugelabs/ice/v2/verifrt"

	"verifharness/explore"
)

// The uninstrumented checks run on an overlay that replaces sync.Pool by the deterministic LIFO
// pool of the run time, emptied at the start of every case: what the code under test leaves in a
// pool is then the same on every run of a case (and on its replay), and cannot travel from one
// case to the next.
func init() {
	verifrt.DetPools = true
	explore.OnBegin = verifrt.ResetPools
}
