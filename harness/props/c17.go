package props

import (
	"fmt"
	"strings"

	"github.com/RoaringBitmap/roaring"
	segment "github.com/blugelabs/bluge_segment_api"

	"verifharness/explore"
	"verifharness/gen"
	"verifharness/model"
	"verifharness/obs"
)

func init() {
	register(&explore.Prop{
		ID: "C17", Level: levelMC, Explorer: "E1/E2 over TREE (metamorphic, no reference model)",
		Rule: "every list of 3 segments over K kinds (<=2 docs each) and of 4 segments (<=1 doc each), TREE-LARGE (a leaf whose term has 1023 / 1024 / 2047 postings next to leaves carrying the same term once: every bracketing, deletions early and late), and TREE-TERM: every list of 3 one-document segments whose posting for one (field, term) is absent / f1 / f1+loc / f2+loc / f300+2 locs, x every deletion set per segment x every order-preserving hierarchical grouping (Schroeder trees: 3 for k=3, 11 for k=4) x {deletions applied at the innermost merge containing the segment, deletions translated through DocumentNumbers() and applied at the outermost merge}; all results must be observationally identical to the flat merge including statistics; single-segment identity merge([s]) == s for built and already-merged s (statistics compared where the built and merged definitions coincide); " +
			"distinct = (segment list, deletions); evaluations = merge trees evaluated; non-trivial = some term has freq>=2 or occurs in >=2 segments or a document is dropped",
		Assumptions: []string{"bounded scopes (DESIGN.md 4/9)", "no reference model involved: the oracle is agreement between differently bracketed executions of the real merger", "roaring, vellum, zstd trusted"},
		Budget:      qBudget, Run: runC17,
	})
}

type tree struct {
	leaf int // >= 0 for leaves
	kids []*tree
}

func (t *tree) String() string {
	if t.kids == nil {
		return fmt.Sprint(t.leaf)
	}
	var p []string
	for _, k := range t.kids {
		p = append(p, k.String())
	}
	return "(" + strings.Join(p, " ") + ")"
}

// trees returns every order-preserving hierarchical grouping of leaves [i,j).
func trees(i, j int) []*tree {
	if j-i == 1 {
		return []*tree{{leaf: i}}
	}
	var out []*tree
	// compositions of [i,j) into >= 2 consecutive parts
	var rec func(start int, parts [][2]int)
	rec = func(start int, parts [][2]int) {
		if start == j {
			if len(parts) >= 2 {
				// cartesian product of subtrees
				var prod func(k int, cur []*tree)
				prod = func(k int, cur []*tree) {
					if k == len(parts) {
						out = append(out, &tree{leaf: -1, kids: append([]*tree(nil), cur...)})
						return
					}
					for _, st := range trees(parts[k][0], parts[k][1]) {
						prod(k+1, append(cur, st))
					}
				}
				prod(0, nil)
			}
			return
		}
		for end := start + 1; end <= j; end++ {
			rec(end, append(append([][2]int(nil), parts...), [2]int{start, end}))
		}
	}
	rec(i, nil)
	return out
}

type evalRes struct {
	seg segment.Segment
	// where[leaf][oldDoc] = current doc number in seg (model.Dropped if dropped)
	where map[int][]uint64
}

// evalTree evaluates t. early: deletions applied where the leaf is first merged; late: at the root only.
func evalTree(t *tree, leaves []segment.Segment, counts []int, drops [][]uint32, late bool, root bool, mode uint32, nMerges *int64) (*evalRes, error) {
	if t.kids == nil {
		w := make([]uint64, counts[t.leaf])
		for d := range w {
			w[d] = uint64(d)
		}
		return &evalRes{leaves[t.leaf], map[int][]uint64{t.leaf: w}}, nil
	}
	var segs []segment.Segment
	var bms []*roaring.Bitmap
	var kids []*evalRes
	for _, k := range t.kids {
		r, err := evalTree(k, leaves, counts, drops, late, false, mode, nMerges)
		if err != nil {
			return nil, err
		}
		kids = append(kids, r)
		segs = append(segs, r.seg)
		var bm *roaring.Bitmap
		apply := (!late && k.kids == nil) || (late && root)
		if apply {
			for leaf, w := range r.where {
				for _, d := range drops[leaf] {
					if w[d] != model.Dropped {
						if bm == nil {
							bm = roaring.New()
						}
						bm.Add(uint32(w[d]))
					}
				}
			}
		}
		bms = append(bms, bm)
	}
	*nMerges++
	b, nums, _, err := merge(segs, bms, mode)
	if err != nil {
		return nil, fmt.Errorf("merge %s: %w", t, err)
	}
	l, err := loadMem(b)
	if err != nil {
		return nil, fmt.Errorf("load %s: %w", t, err)
	}
	out := &evalRes{seg: l, where: map[int][]uint64{}}
	for ki, r := range kids {
		for leaf, w := range r.where {
			nw := make([]uint64, len(w))
			for d, cur := range w {
				if cur == model.Dropped {
					nw[d] = model.Dropped
				} else if ki < len(nums) && int(cur) < len(nums[ki]) {
					nw[d] = nums[ki][cur]
				} else {
					return nil, fmt.Errorf("DocumentNumbers of %s lacks entry (child %d, doc %d): %v", t, ki, cur, nums)
				}
			}
			out.where[leaf] = nw
		}
	}
	return out, nil
}

func c17Opts(K, maxDocs, base int) []gen.SegSpec {
	var out []gen.SegSpec
	for _, o := range gen.SegOptions(K, maxDocs) {
		if o.DropForm == 1 && len(o.Drops) == 0 {
			continue
		}
		if base > 0 {
			ks := make([]int, len(o.Kinds))
			for i, k := range o.Kinds {
				ks[i] = k + base
			}
			o.Kinds = ks
		}
		out = append(out, o)
	}
	return out
}

func runC17(c *explore.Ctx) {
	type sweep struct {
		k, K, maxDocs int
		mode          uint32
		base          int // 0: the MIX merge kinds; gen.TermKindBase: the five TERM payload kinds
	}
	// chunk size 2: merged lists are multi-chunk. The last sweep: three segments of one document whose
	// posting for ONE (field, term) is absent / f1 / f1+loc / f2+loc / f300+2 locs (inner merges turn a
	// lone f1 posting into a 1-hit entry that then meets postings with locations)
	sweeps := []sweep{{3, 3, 2, 2, 0}, {3, 4, 1, 1025, 0}, {4, 3, 1, 1025, 0}, {3, 5, 1, 1025, gen.TermKindBase}}
	if c.Thorough() {
		// everything the quick tier covers comes first; the widest sweeps last (the budget may end them)
		sweeps = []sweep{{3, 3, 2, 2, 0}, {3, 4, 1, 1025, 0}, {4, 3, 1, 1025, 0}, {3, 5, 1, 1025, gen.TermKindBase}, {3, 3, 2, 1025, 0}, {3, 3, 2, 1, 0}, {4, 5, 1, 2, gen.TermKindBase}, {4, 4, 1, 1025, 0}, {3, 5, 2, 1025, gen.TermKindBase}, {3, 5, 2, 2, 0}, {4, 3, 1, 2, 0}}
	}
	for _, sw := range sweeps {
		opts := c17Opts(sw.K, sw.maxDocs, sw.base)
		ts := trees(0, sw.k)
		scope := fmt.Sprintf("TREE(k=%d,K=%d,d=%d)/%d", sw.k, sw.K, sw.maxDocs, sw.mode)
		if sw.base > 0 {
			scope = fmt.Sprintf("TREE-TERM(k=%d,d=%d)/%d", sw.k, sw.maxDocs, sw.mode)
		}
		var idx int64
		gen.Pow(len(opts), sw.k, func(v []int) bool {
			my := idx
			idx++
			if !c.MineIdx(scope, my) {
				return true
			}
			specs := make([]gen.SegSpec, sw.k)
			for i, o := range v {
				specs[i] = opts[o]
			}
			cas := fmt.Sprintf("%s #%d %v", scope, my, specs)
			c.Sample(my, func() string { return cas })
			var leaves []segment.Segment
			var counts []int
			var drops [][]uint32
			nt := false
			for i, sp := range specs {
				batch := sp.Batch(fmt.Sprintf("s%d", i))
				model.SumFreqLen(batch)
				s, err := build(batch, sw.mode)
				if err != nil {
					c.Eval()
					c.Violate(scope, my, sigOf("C17", "build", "error: "+err.Error()), err.Error(), cas)
					return true
				}
				leaves = append(leaves, s)
				counts = append(counts, len(batch))
				drops = append(drops, sp.Drops)
				if len(sp.Drops) > 0 || len(batch) > 0 {
					nt = true
				}
			}
			if nt {
				c.Nontrivial()
			}
			var ref *obs.Obs
			var refName string
			for _, t := range ts {
				for _, late := range []bool{false, true} {
					if len(t.kids) == sw.k && late {
						continue // flat tree: early and late coincide
					}
					c.Eval()
					name := fmt.Sprintf("%s late=%v", t, late)
					var nm int64
					r, err := evalTree(t, leaves, counts, drops, late, true, sw.mode, &nm)
					c.R.Transitions += nm
					if err != nil {
						c.Violate(scope, my, sigOf("C17", "eval", "error: "+err.Error()), name+": "+err.Error(), cas)
						return !c.Expired()
					}
					o, err := observe(r.seg)
					if err != nil {
						c.Violate(scope, my, sigOf("C17", "observe", "error: "+err.Error()), name+": "+err.Error(), cas)
						return !c.Expired()
					}
					if ref == nil {
						ref, refName = o, name
						c.Outcome(explore.Hash(o.String()))
						continue
					}
					if d := obs.Diff(o, ref, obs.CAll); d != "" {
						c.Violate(scope, my, sigOf("C17", "bracketing", d), fmt.Sprintf("%s differs from %s: %s", name, refName, d), cas)
						return !c.Expired()
					}
				}
			}
			return !c.Expired()
		})
	}
	// TREE-LARGE: three leaves of which one carries a term with n postings (n around the multiples
	// of 1024 that decide the adaptive chunk size) and another the same term once (1-hit after an
	// inner merge); every bracketing, deletions early and late
	{
		scope := "TREE-LARGE"
		var idx int64
		ts := trees(0, 3)
		// the term is "x", or the empty term (the first term of its field: whatever is set up "for the
		// next term" when a field begins meets a term that equals the initial value of "previous term")
		for _, nt := range []struct {
			n int
			t string
		}{{1023, "x"}, {1024, "x"}, {2047, "x"}, {1023, ""}, {2047, ""}, {2100, ""}} {
			n, tname := nt.n, nt.t
			for pos := 0; pos < 3; pos++ { // where the large leaf stands
				for dropKind := 0; dropKind < 3; dropKind++ {
					my := idx
					idx++
					if !c.MineIdx(scope, my) || c.Expired() {
						continue
					}
					cas := fmt.Sprintf("%s #%d n=%d term=%q large-leaf-at=%d drop=%d", scope, my, n, tname, pos, dropKind)
					big := renameTerm(gen.Large(n, 0, 1), "a", "x", tname)
					for j := range big {
						if j%97 == 0 {
							big[j] = append(gen.Doc{gen.IDField("L", j)}, big[j]...)
						}
					}
					one := []model.Doc{{gen.IDField("o", 0), {N: "a", Len: 1, Terms: []model.Term{{T: tname, Freq: 1}}}}}
					// the third leaf carries another term only (dropKind 1: x is 1-hit in merge(one,two) and its
					// document is deleted there) or x as well
					other := "y"
					if dropKind != 1 {
						other = tname
					}
					two := []model.Doc{{gen.IDField("t", 0), {N: "b", Len: 1, Terms: []model.Term{{T: "x", Freq: 1}}}}, {gen.IDField("t", 1), {N: "a", Len: 1, Terms: []model.Term{{T: other, Freq: 1}}}}}
					small := [][]model.Doc{one, two}
					var batches [][]model.Doc
					si := 0
					for k := 0; k < 3; k++ {
						if k == pos {
							batches = append(batches, big)
						} else {
							batches = append(batches, small[si])
							si++
						}
					}
					var leaves []segment.Segment
					var counts []int
					drops := make([][]uint32, 3)
					bad := false
					for k, b := range batches {
						model.SumFreqLen(b)
						sg, err := build(b, 1025)
						if err != nil {
							c.Eval()
							c.Violate(scope, my, sigOf("C17", "build", "error: "+err.Error()), err.Error(), cas)
							bad = true
							break
						}
						leaves = append(leaves, sg)
						counts = append(counts, len(b))
						if k != pos && dropKind >= 1 && len(b) == 1 {
							drops[k] = []uint32{0} // the one-document leaf loses its document
						}
						if k == pos && dropKind == 2 {
							drops[k] = []uint32{0, 7}
						}
					}
					if bad {
						continue
					}
					c.Nontrivial()
					var ref *obs.Obs
					var refName string
					for _, t := range ts {
						for _, late := range []bool{false, true} {
							if len(t.kids) == 3 && late {
								continue
							}
							c.Eval()
							name := fmt.Sprintf("%s late=%v", t, late)
							var nm int64
							r, err := evalTree(t, leaves, counts, drops, late, true, 1025, &nm)
							c.R.Transitions += nm
							if err != nil {
								c.Violate(scope, my, sigOf("C17", "eval", "error: "+err.Error()), name+": "+err.Error(), cas)
								bad = true
								break
							}
							o, err := observe(r.seg)
							if err != nil {
								c.Violate(scope, my, sigOf("C17", "observe", "error: "+err.Error()), name+": "+err.Error(), cas)
								bad = true
								break
							}
							if ref == nil {
								ref, refName = o, name
								continue
							}
							if d := obs.Diff(o, ref, obs.CAll); d != "" {
								c.Violate(scope, my, sigOf("C17", "bracketing", d), fmt.Sprintf("%s differs from %s: %s", name, refName, d), cas)
								bad = true
								break
							}
						}
						if bad {
							break
						}
					}
				}
			}
		}
	}
	// single-segment identity
	for _, m := range []uint32{1025, 1} {
		m := m
		K := 8
		if c.Thorough() {
			K = gen.NMix
		}
		scope := fmt.Sprintf("IDENTITY-MIX(%d,3)/%d", K, m)
		gen.Mix(K, 3, "m", func(idx int64, batch []gen.Doc, kinds []int) bool {
			if !c.MineIdx(scope, idx) || len(batch) == 0 {
				return true
			}
			c.Eval()
			c.Nontrivial()
			model.SumFreqLen(batch)
			cas := fmt.Sprintf("%s #%d %s", scope, idx, model.BatchString(batch))
			s, err := build(batch, m)
			if err != nil {
				c.Violate(scope, idx, sigOf("C17", "build", "error: "+err.Error()), err.Error(), cas)
				return true
			}
			cur := s
			curObs, err := observe(s)
			if err != nil {
				c.Violate(scope, idx, sigOf("C17", "observe", "error: "+err.Error()), err.Error(), cas)
				return true
			}
			// fields on which the built and the merged statistics definitions coincide
			for round := 1; round <= 2; round++ {
				b, _, _, err := merge([]segment.Segment{cur}, []*roaring.Bitmap{nil}, m)
				c.R.Transitions++
				if err != nil {
					c.Violate(scope, idx, sigOf("C17", "identity-merge", "error: "+err.Error()), err.Error(), cas)
					return true
				}
				l, err := loadMem(b)
				if err != nil {
					c.Violate(scope, idx, sigOf("C17", "identity-load", "error: "+err.Error()), err.Error(), cas)
					return true
				}
				o, err := observe(l)
				if err != nil {
					c.Violate(scope, idx, sigOf("C17", "identity-observe", "error: "+err.Error()), err.Error(), cas)
					return true
				}
				comps := obs.CAll
				if round == 1 {
					comps &^= obs.CStats // built vs merged: compared per field below
				}
				if d := obs.Diff(o, curObs, comps); d != "" {
					c.Violate(scope, idx, sigOf("C17", fmt.Sprintf("identity-round%d", round), d), d, cas)
					return true
				}
				if round == 1 {
					for _, f := range o.Fields {
						coincide := true
						for _, d := range batch {
							for _, fl := range d {
								if fl.N == f && len(fl.Terms) == 0 {
									coincide = false
								}
							}
						}
						if coincide && o.Stats[f] != curObs.Stats[f] {
							c.Violate(scope, idx, "C17/identity-round1/wrong/stats", fmt.Sprintf("field %q: merged %+v built %+v", f, o.Stats[f], curObs.Stats[f]), cas)
							return true
						}
					}
				}
				cur, curObs = l, o
			}
			return !c.Expired()
		})
	}
}
