module verifharness

go 1.21

require (
	github.com/blugelabs/bluge_segment_api v0.2.0
	github.com/blugelabs/ice/v2 v2.0.0
)

require (
	github.com/RoaringBitmap/roaring v0.9.4
	github.com/bits-and-blooms/bitset v1.2.0 // indirect
	github.com/blevesearch/mmap-go v1.0.4 // indirect
	github.com/blevesearch/vellum v1.0.7
	github.com/klauspost/compress v1.15.2
	golang.org/x/sys v0.0.0-20220520151302-bc2c85ada10a // indirect
)

replace github.com/blugelabs/ice/v2 => /repo
