// mkgolden regenerates /verif/golden with the frozen reference implementation.
package main

import (
	"fmt"
	"os"

	"verifharness/props"
)

func main() {
	if err := props.WriteGolden(); err != nil {
		fmt.Fprintln(os.Stderr, err)
		os.Exit(1)
	}
	fmt.Println("golden corpus written")
}
