// vcheck runs one property check: `vcheck <ID> <quick|thorough>`; `vcheck -replay <file>`.
package main

import (
	"flag"
	"fmt"
	"os"

	"verifharness/explore"
	"verifharness/props"
)

func main() {
	worker := flag.Bool("worker", false, "internal: run one shard")
	prop := flag.String("prop", "", "property id")
	tier := flag.String("tier", "quick", "quick|thorough")
	shard := flag.Int("shard", 0, "")
	of := flag.Int("of", 1, "")
	seed := flag.Int64("seed", 0, "")
	out := flag.String("out", "", "")
	replay := flag.String("replay", "", "replay artefact")
	quiet := flag.Bool("quiet", false, "")
	list := flag.Bool("list", false, "list registered properties")
	racepass := flag.String("racepass", "", "internal: free-running race pass for C09|C14 (binary must be built with -race)")
	iters := flag.Int("iters", 20, "iterations per scenario of the race pass")
	flag.Parse()
	if *list {
		for _, id := range props.IDs() {
			fmt.Println(id)
		}
		return
	}
	if *racepass != "" {
		os.Exit(props.RunRacePass(*racepass, *iters))
	}
	if *replay != "" {
		os.Exit(explore.RunReplay(props.Lookup, *replay, *quiet))
	}
	if *worker {
		p := props.Lookup(*prop)
		if p == nil {
			fmt.Fprintln(os.Stderr, "unknown property", *prop)
			os.Exit(2)
		}
		os.Exit(explore.RunWorker(p, *tier, *shard, *of, *seed, *out))
	}
	args := flag.Args()
	if len(args) < 1 {
		fmt.Fprintln(os.Stderr, "usage: vcheck <ID> [quick|thorough]")
		os.Exit(2)
	}
	t := "quick"
	if len(args) > 1 {
		t = args[1]
	}
	if t != "quick" && t != "thorough" {
		fmt.Fprintln(os.Stderr, "tier must be quick or thorough")
		os.Exit(2)
	}
	p := props.Lookup(args[0])
	if p == nil {
		fmt.Fprintln(os.Stderr, "unknown property", args[0])
		os.Exit(2)
	}
	os.Exit(explore.RunParent(p, t))
}
