// Package model holds the input representation (documents handed to ice) and the
// specification-level reference model of a segment: plain Go maps and slices.
package model

import (
	"math"
	"fmt"
	"sort"
	"strings"

	segment "github.com/blugelabs/bluge_segment_api"
)

// ---- input documents (implement the segment.Document family) ----

type Loc struct {
	F       string // "" or the name of a field of the batch
	P, S, E int
}

func (l *Loc) Field() string { return l.F }
func (l *Loc) Pos() int      { return l.P }
func (l *Loc) Start() int    { return l.S }
func (l *Loc) End() int      { return l.E }
func (l *Loc) Size() int     { return 0 }

type Term struct {
	T    string
	Freq int
	Locs []Loc
}

func (t *Term) Term() []byte   { return []byte(t.T) }
func (t *Term) Frequency() int { return t.Freq }
func (t *Term) EachLocation(v segment.VisitLocation) {
	for i := range t.Locs {
		v(&t.Locs[i])
	}
}

type Field struct {
	N     string
	Len   int
	Terms []Term
	St    bool
	Val   []byte
	DV    bool
}

func (f *Field) Name() string         { return f.N }
func (f *Field) Length() int          { return f.Len }
func (f *Field) Value() []byte        { return f.Val }
func (f *Field) Index() bool          { return true }
func (f *Field) Store() bool          { return f.St }
func (f *Field) IndexDocValues() bool { return f.DV }
func (f *Field) EachTerm(v segment.VisitTerm) {
	for i := range f.Terms {
		v(&f.Terms[i])
	}
}

type Doc []Field

type docAdapter struct{ d Doc }

func (d docAdapter) Analyze() {}
func (d docAdapter) EachField(v segment.VisitField) {
	for i := range d.d {
		v(&d.d[i])
	}
}

// SegDocs converts a batch to the interface slice ice.New wants.
func SegDocs(batch []Doc) []segment.Document {
	out := make([]segment.Document, len(batch))
	for i := range batch {
		out[i] = docAdapter{batch[i]}
	}
	return out
}

// NormCalc is the norm function used everywhere: strictly positive, distinct per
// (length) and slightly field dependent so that a norm computed for the wrong
// field or from the wrong length is visible.
func NormCalc(field string, length int) float32 {
	if NormMode != 0 {
		return normTable[(len(field)+length+NormMode)%len(normTable)]
	}
	return 1.0/float32(1+length) + float32(len(field))*0.001
}

// NormMode != 0 selects norms from a table of float32 bit patterns outside the everyday range
// (values >= 2 have bit 30 set; huge, maximal, denormal and minimal values): the norm is an opaque
// strictly positive float32 to ice, and it is bit-packed into 1-hit dictionary values. The mode
// rotates the table so that every (field, length) meets every entry under some mode 1..len(table).
var NormMode int

var normTable = []float32{2, 3, 1e30, math.MaxFloat32, 1e-40, 1, 0.5, math.SmallestNonzeroFloat32}

// NormModes lists the non-default modes.
func NormModes() []int {
	out := make([]int, len(normTable))
	for i := range out {
		out[i] = i + 1
	}
	return out
}

// WithNormMode runs f under the given norm mode.
func WithNormMode(m int, f func()) {
	old := NormMode
	NormMode = m
	defer func() { NormMode = old }()
	f()
}

// SumFreqLen sets every field's Len to the sum of its term frequencies
// (the C16 contract: reported field length == sum of term frequencies).
func SumFreqLen(batch []Doc) {
	for _, d := range batch {
		for i := range d {
			n := 0
			for _, t := range d[i].Terms {
				n += t.Freq
			}
			d[i].Len = n
		}
	}
}

// String renders a batch compactly (used for samples, replay files and hashing).
func BatchString(batch []Doc) string {
	var b strings.Builder
	for i, d := range batch {
		if i > 0 {
			b.WriteString(" | ")
		}
		b.WriteString(DocString(d))
	}
	return b.String()
}

func DocString(d Doc) string {
	var b strings.Builder
	b.WriteString("{")
	for i, f := range d {
		if i > 0 {
			b.WriteString(" ")
		}
		fmt.Fprintf(&b, "%s/%d", f.N, f.Len)
		if f.St {
			fmt.Fprintf(&b, "S%q", f.Val)
		}
		if f.DV {
			b.WriteString("D")
		}
		b.WriteString("[")
		for j, t := range f.Terms {
			if j > 0 {
				b.WriteString(",")
			}
			fmt.Fprintf(&b, "%q*%d", t.T, t.Freq)
			for _, l := range t.Locs {
				fmt.Fprintf(&b, "@%s:%d:%d:%d", l.F, l.P, l.S, l.E)
			}
		}
		b.WriteString("]")
	}
	b.WriteString("}")
	return b.String()
}

// ---- logical (specification level) segment ----

type LLoc struct {
	Field   string
	P, S, E int
}

type LPosting struct {
	Freq int
	Norm float32
	Locs []LLoc
}

type LField struct {
	Len    int
	Terms  map[string]*LPosting
	Stored [][]byte
	DV     bool // doc values available for this (doc, field)
}

type LDoc struct {
	Fields map[string]*LField
}

type Stats struct{ Total, Docs, SumTF uint64 }

type LSeg struct {
	Fields []string // _id first, rest sorted
	Docs   []*LDoc
	Stats  map[string]Stats // per field of Fields
	Merged bool
}

func sortedFields(set map[string]bool) []string {
	out := []string{"_id"}
	for k := range set {
		if k != "_id" {
			out = append(out, k)
		}
	}
	sort.Strings(out[1:])
	return out
}

// Build is the reference semantics of ice.New.
func Build(batch []Doc) *LSeg {
	return BuildNorm(batch, NormCalc)
}

func BuildNorm(batch []Doc, norm func(string, int) float32) *LSeg {
	fset := map[string]bool{}
	dvFlag := map[string]bool{}
	for _, d := range batch {
		for _, f := range d {
			fset[f.N] = true
			if f.DV {
				dvFlag[f.N] = true
			}
		}
	}
	s := &LSeg{Fields: sortedFields(fset), Stats: map[string]Stats{}}
	docsWith := map[string]uint64{}
	sumLen := map[string]uint64{}
	for _, d := range batch {
		ld := &LDoc{Fields: map[string]*LField{}}
		for _, f := range d {
			lf := ld.Fields[f.N]
			if lf == nil {
				lf = &LField{Terms: map[string]*LPosting{}, DV: dvFlag[f.N]}
				ld.Fields[f.N] = lf
				docsWith[f.N]++
			}
			lf.Len += f.Len
			sumLen[f.N] += uint64(f.Len)
			if f.St {
				lf.Stored = append(lf.Stored, f.Val)
			}
			for _, t := range f.Terms {
				p := lf.Terms[t.T]
				if p == nil {
					p = &LPosting{}
					lf.Terms[t.T] = p
				}
				p.Freq += t.Freq
				for _, l := range t.Locs {
					fn := l.F
					if fn == "" {
						fn = f.N
					}
					p.Locs = append(p.Locs, LLoc{fn, l.P, l.S, l.E})
				}
			}
		}
		for name, lf := range ld.Fields {
			n := norm(name, lf.Len)
			for _, p := range lf.Terms {
				p.Norm = n
			}
		}
		s.Docs = append(s.Docs, ld)
	}
	for _, f := range s.Fields {
		s.Stats[f] = Stats{uint64(len(batch)), docsWith[f], sumLen[f]}
	}
	return s
}

// Dropped is the sentinel Merger.DocumentNumbers uses for deleted documents.
const Dropped = uint64(1<<63 - 1)

// Merge is the reference semantics of ice.Merge: survivors in (segment, document)
// order carrying their derived data unchanged. drops[i] may be nil.
func Merge(segs []*LSeg, drops []map[uint64]bool) (*LSeg, [][]uint64) {
	fset := map[string]bool{}
	for _, s := range segs {
		for _, f := range s.Fields {
			fset[f] = true
		}
	}
	out := &LSeg{Fields: sortedFields(fset), Stats: map[string]Stats{}, Merged: true}
	nums := make([][]uint64, len(segs))
	var n uint64
	for i, s := range segs {
		nums[i] = make([]uint64, len(s.Docs))
		for j, d := range s.Docs {
			if drops[i] != nil && drops[i][uint64(j)] {
				nums[i][j] = Dropped
				continue
			}
			nums[i][j] = n
			n++
			out.Docs = append(out.Docs, d)
		}
	}
	for _, f := range out.Fields {
		st := Stats{Total: n}
		for _, d := range out.Docs {
			if lf := d.Fields[f]; lf != nil && len(lf.Terms) > 0 {
				st.Docs++
				for _, p := range lf.Terms {
					st.SumTF += uint64(p.Freq)
				}
			}
		}
		if n == 0 {
			st = Stats{}
		}
		out.Stats[f] = st
	}
	return out, nums
}

// Terms returns the sorted live terms of a field.
func (s *LSeg) Terms(field string) []string {
	set := map[string]bool{}
	for _, d := range s.Docs {
		if lf := d.Fields[field]; lf != nil {
			for t := range lf.Terms {
				set[t] = true
			}
		}
	}
	out := make([]string, 0, len(set))
	for t := range set {
		out = append(out, t)
	}
	sort.Strings(out)
	return out
}

// Postings returns the documents containing (field, term) ascending.
func (s *LSeg) Postings(field, term string) []uint64 {
	var out []uint64
	for i, d := range s.Docs {
		if lf := d.Fields[field]; lf != nil {
			if _, ok := lf.Terms[term]; ok {
				out = append(out, uint64(i))
			}
		}
	}
	return out
}

func (s *LSeg) HasField(f string) bool {
	for _, x := range s.Fields {
		if x == f {
			return true
		}
	}
	return false
}

// DocValues returns the sorted terms of doc in field if doc values are available.
func (s *LSeg) DocValues(doc int, field string) []string {
	if doc < 0 || doc >= len(s.Docs) {
		return nil
	}
	lf := s.Docs[doc].Fields[field]
	if lf == nil || !lf.DV {
		return nil
	}
	out := make([]string, 0, len(lf.Terms))
	for t := range lf.Terms {
		out = append(out, t)
	}
	sort.Strings(out)
	return out
}

type KV struct {
	F string
	V string
}

// StoredOf returns the stored values of a document in field-list order.
func (s *LSeg) StoredOf(doc int) []KV {
	if doc < 0 || doc >= len(s.Docs) {
		return nil
	}
	var out []KV
	for _, f := range s.Fields {
		if lf := s.Docs[doc].Fields[f]; lf != nil {
			for _, v := range lf.Stored {
				out = append(out, KV{f, string(v)})
			}
		}
	}
	return out
}
