package explore

import (
	"bytes"
	"encoding/json"
	"fmt"
	"os"
	"os/exec"
	"path/filepath"
	"sort"
	"strconv"
	"strings"
	"sync"
	"syscall"
	"time"
)

// Prop describes one registered property check.
type Prop struct {
	ID          string
	Level       string // evidence level category
	Rule        string // how cases are enumerated; what is distinct / non-trivial
	Assumptions []string
	Explorer    string
	Budget      map[string]time.Duration // internal deadline per tier (ends with exhaustive=false, exit 0)
	Instr       bool                     // needs the instrumented build
	Run         func(c *Ctx)
}

type KnownFinding struct {
	Kind      string `json:"kind"` // "known" | "fixed"
	Property  string `json:"property"`
	ID        string `json:"id"`
	Signature string `json:"signature"`
	What      string `json:"what"`
	Commit    string `json:"commit,omitempty"`
}

func VerifDir() string {
	if d := os.Getenv("VERIF_DIR"); d != "" {
		return d
	}
	return "/verif"
}

func loadKnown() ([]KnownFinding, error) {
	b, err := os.ReadFile(filepath.Join(VerifDir(), "known_findings.json"))
	if err != nil {
		if os.IsNotExist(err) {
			return nil, nil
		}
		return nil, err
	}
	var k struct {
		Findings []KnownFinding `json:"findings"`
	}
	if err := json.Unmarshal(b, &k); err != nil {
		return nil, err
	}
	return k.Findings, nil
}

func sigMatch(pattern, sig string) bool {
	if strings.HasSuffix(pattern, "*") {
		return strings.HasPrefix(sig, strings.TrimSuffix(pattern, "*"))
	}
	return pattern == sig
}

func envInt(name string, def int) int {
	if v, err := strconv.Atoi(os.Getenv(name)); err == nil && v > 0 {
		return v
	}
	return def
}

// RunParent shards the check over worker processes, aggregates, classifies violations,
// writes the evidence file and returns the process exit code.
func RunParent(p *Prop, tier string) int {
	start := time.Now()
	seed := int64(envInt("VERIF_SEED", 0))
	nw := envInt("VERIF_WORKERS", 16)
	self, _ := os.Executable()
	runDir := filepath.Join(VerifDir(), ".build", "run", p.ID)
	os.RemoveAll(runDir)
	os.MkdirAll(runDir, 0o755)
	defer os.RemoveAll(runDir)

	budget := p.Budget[tier]
	if budget == 0 {
		budget = 10 * time.Minute
	}
	hard := budget + 5*time.Minute

	results := make([]*Result, nw)
	errs := make([]string, nw)
	crashes := make([]*Violation, nw)
	var wg sync.WaitGroup
	for i := 0; i < nw; i++ {
		wg.Add(1)
		go func(i int) {
			defer wg.Done()
			out := filepath.Join(runDir, fmt.Sprintf("w%d.json", i))
			cmd := exec.Command(self, "-worker", "-prop", p.ID, "-tier", tier, "-shard", strconv.Itoa(i),
				"-of", strconv.Itoa(nw), "-seed", strconv.FormatInt(seed, 10), "-out", out)
			procs := "GOMAXPROCS=2"
			if p.Instr {
				procs = "GOMAXPROCS=1" // cooperative hand-offs are direct goroutine switches on one P
			}
			cmd.Env = append(os.Environ(), procs, "GOMEMLIMIT=3GiB", "TMPDIR="+runDir)
			var stderr bytes.Buffer
			cmd.Stderr = &stderr
			cmd.Stdout = &stderr
			if err := cmd.Start(); err != nil {
				errs[i] = err.Error()
				return
			}
			done := make(chan error, 1)
			go func() { done <- cmd.Wait() }()
			select {
			case err := <-done:
				if err != nil {
					s := stderr.String()
					if len(s) > 3000 {
						s = s[:1500] + "\n...\n" + s[len(s)-1500:]
					}
					if mb, merr := os.ReadFile(out + ".marker"); merr == nil {
						if scope, idx := DecodeMarker(mb); scope != "" {
							if _, serr := os.Stat(out); serr != nil {
								// died while executing a case: a crash-class violation candidate
								crashes[i] = &Violation{Property: p.ID, Tier: tier, Scope: scope, Index: idx,
									Signature: p.ID + "/crash/" + crashClass(s, err), Detail: fmt.Sprintf("worker died (%v) while executing this case: %s", err, s), Case: fmt.Sprintf("%s #%d", scope, idx)}
								results[i] = &Result{Counters: map[string]int64{}}
								return
							}
						}
					}
					errs[i] = fmt.Sprintf("worker %d: %v\n%s", i, err, s)
					return
				}
			case <-time.After(hard):
				cmd.Process.Kill()
				errs[i] = fmt.Sprintf("worker %d exceeded hard limit %v", i, hard)
				return
			}
			b, err := os.ReadFile(out)
			if err != nil {
				errs[i] = err.Error()
				return
			}
			r := &Result{}
			if err := json.Unmarshal(b, r); err != nil {
				errs[i] = err.Error()
				return
			}
			results[i] = r
		}(i)
	}
	wg.Wait()
	for _, e := range errs {
		if e != "" {
			fmt.Fprintf(os.Stderr, "HARNESS-ERROR property=%s %s\n", p.ID, e)
			return 2
		}
	}

	// aggregate
	agg := &Result{Counters: map[string]int64{}}
	for _, cr := range crashes {
		if cr != nil {
			agg.Violations = append(agg.Violations, *cr)
			agg.NViolations++
			agg.Capped = "a worker died; its shard is incomplete"
		}
	}
	outcomes := map[uint64]struct{}{}
	shardOf := map[string]int{} // which worker reported a violation (for the shard re-run fallback)
	for wi, r := range results {
		if r.Error != "" {
			fmt.Fprintf(os.Stderr, "HARNESS-ERROR property=%s %s\n", p.ID, r.Error)
			return 2
		}
		agg.Evaluations += r.Evaluations
		agg.Distinct += r.Distinct
		agg.Nontrivial += r.Nontrivial
		agg.States += r.States
		agg.Transitions += r.Transitions
		agg.NViolations += r.NViolations
		for k, v := range r.Counters {
			agg.Counters[k] += v
		}
		for _, h := range r.Outcomes {
			outcomes[h] = struct{}{}
		}
		agg.OutcomesCap = agg.OutcomesCap || r.OutcomesCap
		for _, v := range r.Violations {
			shardOf[v.Signature+"\x00"+v.Scope+"\x00"+fmt.Sprint(v.Index)] = wi
		}
		agg.Violations = append(agg.Violations, r.Violations...)
		for _, s := range r.Samples {
			if len(agg.Samples) < 6 {
				agg.Samples = append(agg.Samples, s)
			}
		}
		if r.Capped != "" {
			agg.Capped = r.Capped
		}
		agg.Notes = append(agg.Notes, r.Notes...)
	}
	sort.Slice(agg.Violations, func(i, j int) bool {
		a, b := agg.Violations[i], agg.Violations[j]
		if a.Signature != b.Signature {
			return a.Signature < b.Signature
		}
		if a.Scope != b.Scope {
			return a.Scope < b.Scope
		}
		return a.Index < b.Index
	})

	known, err := loadKnown()
	if err != nil {
		fmt.Fprintf(os.Stderr, "HARNESS-ERROR known_findings.json: %v\n", err)
		return 2
	}
	exit := 0
	printedKnown := map[string]bool{}
	reported := map[string]bool{}
	newViolations := 0
	unconfirmed := 0
	knownHits := 0
	os.MkdirAll(filepath.Join(VerifDir(), "replays"), 0o755)
	for _, v := range agg.Violations {
		isKnown := false
		for _, k := range known {
			if k.Kind == "known" && k.Property == p.ID && sigMatch(k.Signature, v.Signature) {
				isKnown = true
				knownHits++
				if !printedKnown[k.ID] {
					printedKnown[k.ID] = true
					fmt.Printf("KNOWN-FINDING: property=%s %s [%s]\n", p.ID, k.What, k.ID)
				}
			}
		}
		if isKnown || reported[v.Signature] {
			continue
		}
		reported[v.Signature] = true
		path := filepath.Join(VerifDir(), "replays", fmt.Sprintf("%s-%016x.json", p.ID, Hash(v.Signature, v.Scope, fmt.Sprint(v.Index))))
		WriteJSON(path, v)
		// re-execute from the artefact before believing it: 5 of 5 is the normal case. If some
		// replays pass, the nondeterminism may sit in the code under test (e.g. Go's random map
		// iteration order reached by the change): then up to 25 replays are made and the violation is
		// reported as intermittent if it shows again at least twice; otherwise it is not believed.
		repro, tries := 0, 0
		notFound := false
		isCrash := strings.Contains(v.Signature, "/crash/")
		limit := 5
		if isCrash {
			limit = 2
		}
		for tries < limit {
			tries++
			cmd := exec.Command(self, "-replay", path, "-quiet")
			procs := "GOMAXPROCS=2"
			if p.Instr {
				procs = "GOMAXPROCS=1"
			}
			cmd.Env = append(os.Environ(), procs)
			out, err2 := cmd.CombinedOutput()
			ok := strings.Contains(string(out), "REPRODUCED signature="+v.Signature+"\n")
			if !ok {
				// the same recorded case may show the same failure class at another oracle component
				// (e.g. the same panic site reached through another form of the segment)
				for _, line := range strings.Split(string(out), "\n") {
					if strings.HasPrefix(line, "REPRODUCED signature=") && sigCore(strings.TrimPrefix(line, "REPRODUCED signature=")) == sigCore(v.Signature) {
						ok = true
					}
				}
			}
			if isCrash {
				if ee, isExit := err2.(*exec.ExitError); isExit && (ee.ExitCode() > 2 || ee.ExitCode() < 0 || strings.Contains(string(out), "fatal error:")) || strings.Contains(string(out), "REPRODUCED signature=") {
					ok = true
				}
			}
			if !ok && !isCrash && strings.Contains(string(out), "replay: case ") && strings.Contains(string(out), " not found") {
				// the artefact cannot address the case (a gap in the driver's replay addressing):
				// no point in repeating it; the shard re-run below decides
				notFound = true
				break
			}
			if ok {
				repro++
			} else if limit == 5 {
				limit = 25
				fmt.Fprintf(os.Stderr, "replay %d of %s did not reproduce signature %q; trying up to 25 replays:\n%s\n", tries, path, v.Signature, tail(string(out), 600))
			}
		}
		if repro == 0 && !isCrash {
			// Not reproducible from the single recorded case: either the driver cannot address it, or
			// the failure depends on what the same process executed BEFORE it (state the code under
			// test keeps at package level or in pools). Enumeration is deterministic, so the whole
			// worker shard that reported it is re-run, twice: a real violation shows up again at the
			// same case both times and is reported (the shard command is its replay); anything else
			// stays unconfirmed.
			wi, have := shardOf[v.Signature+"\x00"+v.Scope+"\x00"+fmt.Sprint(v.Index)]
			again := 0
			for k := 0; have && k < 2; k++ {
				out2 := filepath.Join(runDir, fmt.Sprintf("rerun-w%d-%d.json", wi, k))
				os.Remove(out2)
				cmd := exec.Command(self, "-worker", "-prop", p.ID, "-tier", tier, "-shard", strconv.Itoa(wi),
					"-of", strconv.Itoa(nw), "-seed", strconv.FormatInt(seed, 10), "-out", out2)
				procs := "GOMAXPROCS=2"
				if p.Instr {
					procs = "GOMAXPROCS=1"
				}
				cmd.Env = append(os.Environ(), procs, "GOMEMLIMIT=3GiB", "TMPDIR="+runDir)
				cmd.Run()
				if b, err := os.ReadFile(out2); err == nil {
					r2 := &Result{}
					if json.Unmarshal(b, r2) == nil {
						for _, x := range r2.Violations {
							if x.Scope == v.Scope && x.Index == v.Index && sigCore(x.Signature) == sigCore(v.Signature) {
								again++
								break
							}
						}
					}
				}
			}
			if again == 2 {
				why := "it does not violate the property when executed alone: the failure depends on what the same process executed before it"
				if notFound {
					why = "the replay artefact cannot address it"
				}
				fmt.Printf("NOTE: case %s #%d: %s; confirmed by re-running worker shard %d of %d twice (same violation at the same case both times; replay: vcheck -worker -prop %s -tier %s -shard %d -of %d)\n", v.Scope, v.Index, why, wi, nw, p.ID, tier, wi, nw)
				repro, tries = 1, 1
				v.ShardReplay = fmt.Sprintf("%d/%d/%d", wi, nw, seed)
				WriteJSON(path, v)
			}
		}
		if repro < tries {
			if repro < 2 {
				// not believed; if nothing else is confirmed either, the run ends as a harness error
				fmt.Fprintf(os.Stderr, "UNCONFIRMED property=%s signature %q reproduced in only %d of %d replays: not reported\n", p.ID, v.Signature, repro, tries)
				unconfirmed++
				continue
			}
			fmt.Printf("NOTE: intermittent: the recorded case violates the property in %d of %d replays (nondeterminism inside the code under test)\n", repro, tries)
		}
		newViolations++
		exit = 1
		fmt.Printf("VIOLATION property=%s replay=%s\n", p.ID, path)
		fmt.Printf("  signature: %s\n  detail: %s\n  case: %s\n", v.Signature, tail(v.Detail, 600), tail(v.Case, 600))
	}

	if unconfirmed > 0 && newViolations == 0 {
		fmt.Fprintf(os.Stderr, "HARNESS-ERROR property=%s %d violation candidate(s) did not reproduce from their artefacts and none was confirmed (nondeterminism)\n", p.ID, unconfirmed)
		return 2
	}
	ev := map[string]interface{}{
		"property_id": p.ID,
		"tier":        tier,
		"seed":        seed,
		"level":       p.Level,
		"wall_s":      time.Since(start).Seconds(),
		"violations":  newViolations,
		"assumptions": p.Assumptions,
	}
	samples := make([]interface{}, 0, len(agg.Samples))
	for _, s := range agg.Samples {
		samples = append(samples, s)
	}
	if len(samples) == 0 {
		samples = append(samples, "(no sample recorded)")
	}
	cov := map[string]interface{}{
		"evaluations":                      agg.Evaluations,
		"distinct_cases":                   agg.Distinct,
		"distinct_nontrivial":              agg.Nontrivial,
		"rule":                             p.Rule,
		"samples":                          samples,
		"exhaustive":                       agg.Capped == "",
		"distinct_outcomes":                len(outcomes),
		"distinct_outcomes_capped":         agg.OutcomesCap,
		"counters":                         agg.Counters,
		"explorer":                         p.Explorer,
		"workers":                          nw,
		"traces_validated_against_impl":    agg.Evaluations,
		"known_finding_hits":               knownHits,
		"violating_cases_seen":             agg.NViolations,
		"unconfirmed_violation_candidates": unconfirmed,
	}
	if agg.Capped != "" {
		cov["capped"] = agg.Capped
	}
	if rp := os.Getenv("VERIF_RACEPASS"); rp != "" {
		cov["race_pass_supplementary"] = rp
	}
	if agg.States > 0 {
		cov["states"] = agg.States
		cov["transitions"] = agg.Transitions
	}
	if len(agg.Notes) > 0 {
		sort.Strings(agg.Notes)
		cov["notes"] = dedup(agg.Notes)
	}
	ev["coverage"] = cov
	os.MkdirAll(filepath.Join(VerifDir(), "evidence"), 0o755)
	if err := WriteJSON(filepath.Join(VerifDir(), "evidence", p.ID+".json"), ev); err != nil {
		fmt.Fprintf(os.Stderr, "HARNESS-ERROR writing evidence: %v\n", err)
		return 2
	}
	fmt.Printf("%s %s: evaluations=%d distinct=%d nontrivial=%d states=%d transitions=%d outcomes=%d exhaustive=%v violations=%d known=%d wall=%.1fs\n",
		p.ID, tier, agg.Evaluations, agg.Distinct, agg.Nontrivial, agg.States, agg.Transitions, len(outcomes), agg.Capped == "", newViolations, knownHits, time.Since(start).Seconds())
	return exit
}

func dedup(s []string) []string {
	var out []string
	for i, x := range s {
		if i == 0 || x != s[i-1] {
			out = append(out, x)
		}
	}
	return out
}

func tail(s string, n int) string {
	if len(s) > n {
		return s[:n] + "..."
	}
	return s
}

// RunWorker executes one shard and writes its Result.
func RunWorker(p *Prop, tier string, shard, of int, seed int64, out string) int {
	budget := p.Budget[tier]
	if budget == 0 {
		budget = 10 * time.Minute
	}
	c := NewCtx(p.ID, tier, shard, of, seed, budget)
	// address-space limit: a runaway allocation ends this worker, not the machine
	lim := uint64(envInt("VERIF_WORKER_AS_GB", 12)) << 30
	syscall.Setrlimit(syscall.RLIMIT_AS, &syscall.Rlimit{Cur: lim, Max: lim})
	if f, err := os.OpenFile(out+".marker", os.O_RDWR|os.O_CREATE|os.O_TRUNC, 0o644); err == nil {
		if f.Truncate(600) == nil {
			if mm, err := syscall.Mmap(int(f.Fd()), 0, 600, syscall.PROT_READ|syscall.PROT_WRITE, syscall.MAP_SHARED); err == nil {
				c.SetMarker(mm)
			}
		}
		f.Close()
	}
	// watchdog: a single case that does not end within the limit is a hang (the limit is three
	// orders of magnitude above the slowest case; it is a backstop, not an oracle)
	caseLimit := time.Duration(envInt("VERIF_CASE_LIMIT_S", 300)) * time.Second
	go func() {
		last, since := int64(-1), time.Now()
		for {
			time.Sleep(500 * time.Millisecond)
			if t := c.Tick(); t != last {
				last, since = t, time.Now()
			} else if last >= 0 && time.Since(since) > caseLimit {
				fmt.Fprintf(os.Stderr, "WATCHDOG: case did not finish within %v\n", caseLimit)
				os.Exit(3)
			}
		}
	}()
	if msg := Guard(func() { p.Run(c) }); msg != "" {
		c.R.Error = "driver " + msg
	}
	c.Finish()
	if err := WriteJSON(out, c.R); err != nil {
		fmt.Fprintln(os.Stderr, err)
		return 2
	}
	return 0
}

// RunReplay re-executes exactly one recorded case.
func RunReplay(lookup func(string) *Prop, path string, quiet bool) int {
	b, err := os.ReadFile(path)
	if err != nil {
		fmt.Fprintln(os.Stderr, err)
		return 2
	}
	var v Violation
	if err := json.Unmarshal(b, &v); err != nil {
		fmt.Fprintln(os.Stderr, err)
		return 2
	}
	p := lookup(v.Property)
	if p == nil {
		fmt.Fprintln(os.Stderr, "unknown property", v.Property)
		return 2
	}
	tier := v.Tier
	if v.ShardReplay != "" {
		// replay = the worker shard that reported it
		var wi, nw int
		var seed int64
		fmt.Sscanf(v.ShardReplay, "%d/%d/%d", &wi, &nw, &seed)
		self, _ := os.Executable()
		out := filepath.Join(os.TempDir(), fmt.Sprintf("verif-shard-replay-%d.json", os.Getpid()))
		defer os.Remove(out)
		defer os.Remove(out + ".marker")
		cmd := exec.Command(self, "-worker", "-prop", p.ID, "-tier", tier, "-shard", strconv.Itoa(wi), "-of", strconv.Itoa(nw), "-seed", strconv.FormatInt(seed, 10), "-out", out)
		cmd.Env = append(os.Environ(), "GOMEMLIMIT=3GiB")
		cmd.Run()
		b, err := os.ReadFile(out)
		r2 := &Result{}
		if err != nil || json.Unmarshal(b, r2) != nil {
			fmt.Println("replay: the worker shard did not complete")
			return 2
		}
		for _, x := range r2.Violations {
			if x.Scope == v.Scope && x.Index == v.Index && sigCore(x.Signature) == sigCore(v.Signature) {
				fmt.Printf("REPRODUCED signature=%s\n", x.Signature)
				return 1
			}
		}
		fmt.Println("NOT-REPRODUCED (the shard passes this case on the current tree)")
		return 0
	}
	c := NewCtx(p.ID, tier, 0, 1, 0, time.Hour)
	c.Replay, c.ReplayScope, c.ReplayIndex, c.ReplayExtra, c.Verbose = true, v.Scope, v.Index, v.Extra, !quiet
	if msg := Guard(func() { p.Run(c) }); msg != "" {
		fmt.Fprintln(os.Stderr, "driver", msg)
		return 2
	}
	if c.R.Evaluations == 0 {
		fmt.Printf("replay: case %s/%d not found\n", v.Scope, v.Index)
		return 2
	}
	for _, x := range c.R.Violations {
		fmt.Printf("REPRODUCED signature=%s\n", x.Signature)
	}
	if len(c.R.Violations) == 0 {
		fmt.Println("NOT-REPRODUCED (the case passes on the current tree)")
		return 0
	}
	return 1
}

func crashClass(stderr string, err error) string {
	switch {
	case strings.Contains(stderr, "out of memory") || strings.Contains(stderr, "cannot allocate memory"):
		return "out-of-memory"
	case strings.Contains(stderr, "stack overflow") || strings.Contains(stderr, "goroutine stack exceeds"):
		return "stack-overflow"
	case strings.Contains(stderr, "WATCHDOG"):
		return "hang"
	case strings.Contains(stderr, "fatal error:"):
		return "fatal"
	case strings.Contains(fmt.Sprint(err), "killed"):
		return "killed"
	}
	return "died"
}

// sigCore drops the oracle-component element of a signature: "C06/built/panic@f" -> "C06/panic@f".
func sigCore(sig string) string {
	parts := strings.Split(sig, "/")
	if len(parts) < 3 {
		return sig
	}
	return parts[0] + "/" + strings.Join(parts[2:], "/")
}
