package explore

// Machine is a real object under test bundled with its reference model. The explorer cannot
// clone live objects: a successor is computed by building a fresh machine, replaying the
// shortest path to the state and applying one more operation.
type Machine interface {
	Ops() []int                // operations enabled in the current state
	Step(op int) (viol string) // apply op to implementation and model; "" or a violation
	Key() string               // canonical state: private implementation state + model state
}

type BFSResult struct {
	States, Transitions int64
	MaxDepth            int
	Capped              bool
	Triples             map[string]struct{} // optional: (state, op, result) set for cross-validation
}

// BFS explores all operation sequences by explicit-state search to a fixpoint (or maxStates).
// onViol receives the path leading to the violating transition.
func BFS(newM func() Machine, maxStates int, onViol func(path []int, detail string)) BFSResult {
	return BFSBounded(newM, maxStates, 1<<30, nil, onViol)
}

// Replayer is an optional fast path: apply op to the implementation only (no oracle) while a
// recorded path is replayed to reach a state.
type Replayer interface{ Replay(op int) }

func replay(m Machine, path []int) {
	if r, ok := m.(Replayer); ok {
		for _, op := range path {
			r.Replay(op)
		}
		return
	}
	for _, op := range path {
		m.Step(op)
	}
}

// BFSBounded is BFS with a depth bound (states at depth maxDepth are not expanded) and an
// optional expiry predicate; either limit sets Capped.
func BFSBounded(newM func() Machine, maxStates, maxDepth int, expired func() bool, onViol func(path []int, detail string)) BFSResult {
	var res BFSResult
	type node struct{ path []int }
	seen := map[string]bool{}
	m0 := newM()
	seen[m0.Key()] = true
	res.States = 1
	queue := []node{{nil}}
	for len(queue) > 0 {
		cur := queue[0]
		queue = queue[1:]
		if len(cur.path) > res.MaxDepth {
			res.MaxDepth = len(cur.path)
		}
		if len(cur.path) >= maxDepth {
			res.Capped = true
			continue
		}
		if expired != nil && expired() {
			res.Capped = true
			break
		}
		// enabled ops in this state
		m := newM()
		replay(m, cur.path)
		ops := append([]int(nil), m.Ops()...)
		for oi, op := range ops {
			if oi > 0 {
				m = newM()
				replay(m, cur.path)
			}
			res.Transitions++
			v := m.Step(op)
			np := append(append([]int(nil), cur.path...), op)
			if v != "" {
				onViol(np, v)
				continue // do not explore beyond a violating transition
			}
			k := m.Key()
			if !seen[k] {
				if len(seen) >= maxStates {
					res.Capped = true
					continue
				}
				seen[k] = true
				res.States++
				queue = append(queue, node{np})
			}
		}
	}
	return res
}

// Paths enumerates every operation sequence up to maxDepth without state merging (path mode);
// used to cross-validate the state abstraction of BFS. Returns executed transitions.
func Paths(newM func() Machine, maxDepth int, onViol func(path []int, detail string)) (transitions int64, states map[string]bool) {
	states = map[string]bool{}
	var rec func(path []int)
	rec = func(path []int) {
		m := newM()
		for _, op := range path {
			m.Step(op)
		}
		states[m.Key()] = true
		if len(path) >= maxDepth {
			return
		}
		ops := append([]int(nil), m.Ops()...)
		for oi, op := range ops {
			if oi > 0 {
				m = newM()
				for _, o := range path {
					m.Step(o)
				}
			}
			transitions++
			np := append(append([]int(nil), path...), op)
			if v := m.Step(op); v != "" {
				onViol(np, v)
				continue
			}
			rec(np)
		}
	}
	rec(nil)
	return
}
