// Package explore is the shared engine: case sharding and de-duplication, counters,
// violation artefacts, the parent/worker protocol and evidence writing.
package explore

import (
	"encoding/json"
	"fmt"
	"hash/fnv"
	"os"
	"runtime"
	"sort"
	"strings"
	"time"
)

type Violation struct {
	Property  string `json:"property"`
	Tier      string `json:"tier"`
	Scope     string `json:"scope"`
	Index     int64  `json:"index"`
	Signature string `json:"signature"` // oracle component + failure class + defect predicate
	Detail    string `json:"detail"`
	Case      string `json:"case"`            // decoded case, human readable
	Extra     string `json:"extra,omitempty"` // machine-readable replay data (e.g. scheduler configuration)
	// ShardReplay "<shard>/<of>/<seed>": the case violates the property only as part of its worker
	// shard's deterministic sequence (or cannot be addressed alone); replay re-runs that shard.
	ShardReplay string `json:"shard_replay,omitempty"`
}

type Result struct {
	Evaluations int64            `json:"evaluations"`
	Distinct    int64            `json:"distinct"`
	Nontrivial  int64            `json:"nontrivial"`
	States      int64            `json:"states"`
	Transitions int64            `json:"transitions"`
	Counters    map[string]int64 `json:"counters"`
	Outcomes    []uint64         `json:"outcomes"` // distinct outcome hashes (capped)
	OutcomesCap bool             `json:"outcomes_capped"`
	Violations  []Violation      `json:"violations"`
	NViolations int64            `json:"nviolations"`
	Samples     []string         `json:"samples"`
	Capped      string           `json:"capped"` // non-empty: a deadline or cap was hit
	Error       string           `json:"error"`  // harness failure (exit 2)
	Notes       []string         `json:"notes"`
}

type Ctx struct {
	Prop    string
	Tier    string
	Shard   int
	NShards int
	Seed    int64
	R       *Result

	// replay mode
	Replay      bool
	ReplayScope string
	ReplayIndex int64
	ReplayExtra string
	Verbose     bool

	marker   []byte // mmap'd in-flight marker: survives a SIGKILL of the worker
	seen     map[uint64]struct{}
	outcomes map[uint64]struct{}
	deadline time.Time
	sampleN  int
	tick     int64
	sigSeen  map[string]int
}

func NewCtx(prop, tier string, shard, nshards int, seed int64, budget time.Duration) *Ctx {
	return &Ctx{Prop: prop, Tier: tier, Shard: shard, NShards: nshards, Seed: seed,
		R:    &Result{Counters: map[string]int64{}},
		seen: map[uint64]struct{}{}, outcomes: map[uint64]struct{}{}, sigSeen: map[string]int{},
		deadline: time.Now().Add(budget)}
}

func (c *Ctx) Thorough() bool { return c.Tier == "thorough" }

func Hash(parts ...string) uint64 {
	h := fnv.New64a()
	for _, p := range parts {
		h.Write([]byte(p))
		h.Write([]byte{0})
	}
	return h.Sum64()
}

// Mine decides whether this worker executes the case (scope, idx) whose decoded form
// hashes to key. Cases are sharded by key so that duplicates land in the same worker and
// are executed once; per-shard distinct counts therefore add up exactly.
func (c *Ctx) Mine(scope string, idx int64, key uint64) bool {
	if c.Replay {
		if scope == c.ReplayScope && idx == c.ReplayIndex {
			if OnBegin != nil {
				OnBegin()
			}
			return true
		}
		return false
	}
	if int(key%uint64(c.NShards)) != c.Shard {
		return false
	}
	if _, dup := c.seen[key]; dup {
		return false
	}
	c.seen[key] = struct{}{}
	c.R.Distinct++
	c.Begin(scope, idx)
	return true
}

// Begin records the case about to be executed in the in-flight marker, so that a worker that
// dies (out of memory, stack overflow, watchdog) still names the case that killed it.
// OnBegin, when set, runs at the start of every case (the pools-only overlay empties the
// deterministic pools here).
var OnBegin func()

func (c *Ctx) Begin(scope string, idx int64) {
	if OnBegin != nil {
		OnBegin()
	}
	if c.marker == nil {
		return
	}
	n := copy(c.marker[8:], scope)
	c.marker[0] = byte(n)
	c.marker[1] = byte(n >> 8)
	for i := 0; i < 6; i++ {
		c.marker[2+i] = byte(uint64(idx) >> (8 * uint(i)))
	}
	c.tick++
}

// SetMarker installs the mmap'd marker buffer (>= 520 bytes).
func (c *Ctx) SetMarker(b []byte) { c.marker = b }

// Tick is incremented by Begin; the watchdog uses it to detect a case that never ends.
func (c *Ctx) Tick() int64 { return c.tick }

// DecodeMarker reads back (scope, idx) from a marker buffer.
func DecodeMarker(b []byte) (string, int64) {
	if len(b) < 8 {
		return "", -1
	}
	n := int(b[0]) | int(b[1])<<8
	if n == 0 || 8+n > len(b) {
		return "", -1
	}
	var idx uint64
	for i := 0; i < 6; i++ {
		idx |= uint64(b[2+i]) << (8 * uint(i))
	}
	return string(b[8 : 8+n]), int64(idx)
}

// MineIdx shards by index (for scopes whose cases are distinct by construction).
func (c *Ctx) MineIdx(scope string, idx int64) bool {
	if c.Replay {
		if scope == c.ReplayScope && idx == c.ReplayIndex {
			if OnBegin != nil {
				OnBegin()
			}
			return true
		}
		return false
	}
	if int(idx%int64(c.NShards)) != c.Shard {
		return false
	}
	c.R.Distinct++
	c.Begin(scope, idx)
	return true
}

// ReplayParent reports (in replay mode) whether (scope, idx) is the depth-1 parent of the
// recorded depth-2 case "<scope>/d2" #idx*16+k.
func (c *Ctx) ReplayParent(scope string, idx int64) bool {
	return c.Replay && c.ReplayScope == scope+"/d2" && c.ReplayIndex/16 == idx
}

// Expired reports whether the internal deadline passed; the run then ends with exhaustive=false.
func (c *Ctx) Expired() bool {
	c.tick++ // every poll of the deadline is also a sign of progress for the watchdog
	if c.Replay {
		return false
	}
	if c.R.Capped != "" {
		return true
	}
	if time.Now().After(c.deadline) {
		c.R.Capped = "internal deadline reached"
		return true
	}
	return false
}

func (c *Ctx) Eval()                 { c.R.Evaluations++ }
func (c *Ctx) Nontrivial()           { c.R.Nontrivial++ }
func (c *Ctx) Count(name string)     { c.R.Counters[name]++ }
func (c *Ctx) Add(n string, v int64) { c.R.Counters[n] += v }

func (c *Ctx) Outcome(h uint64) {
	if len(c.outcomes) < 100000 {
		c.outcomes[h] = struct{}{}
	} else {
		c.R.OutcomesCap = true
	}
}

// Sample records a case as a sample; the seed only rotates which cases are written out.
func (c *Ctx) Sample(idx int64, render func() string) {
	if c.Replay {
		return
	}
	c.sampleN++
	if len(c.R.Samples) < 3 && (int64(c.sampleN)+c.Seed)%97 == 0 {
		c.R.Samples = append(c.R.Samples, render())
	} else if len(c.R.Samples) == 0 && c.sampleN == 1 {
		c.R.Samples = append(c.R.Samples, render())
	}
}

// Violate records a violation (at most 3 full artefacts per signature and worker).
func (c *Ctx) Violate(scope string, idx int64, sig, detail, cas string) {
	c.ViolateX(scope, idx, sig, detail, cas, "")
}

// ViolateX is Violate with machine-readable replay data attached.
func (c *Ctx) ViolateX(scope string, idx int64, sig, detail, cas, extra string) {
	c.R.NViolations++
	c.sigSeen[sig]++
	if c.Verbose {
		fmt.Printf("violation scope=%s index=%d signature=%s\n  detail: %s\n  case: %s\n", scope, idx, sig, detail, cas)
	}
	if c.sigSeen[sig] > 2 || len(c.R.Violations) >= 40 {
		return
	}
	if len(detail) > 2000 {
		detail = detail[:2000] + "..."
	}
	if len(cas) > 4000 {
		cas = cas[:4000] + "..."
	}
	c.R.Violations = append(c.R.Violations, Violation{Property: c.Prop, Tier: c.Tier, Scope: scope, Index: idx, Signature: sig, Detail: detail, Case: cas, Extra: extra})
}

func (c *Ctx) Finish() {
	for h := range c.outcomes {
		c.R.Outcomes = append(c.R.Outcomes, h)
	}
	sort.Slice(c.R.Outcomes, func(i, j int) bool { return c.R.Outcomes[i] < c.R.Outcomes[j] })
}

// Guard runs f converting a panic into an error string ("" if none).
func Guard(f func()) (msg string) {
	defer func() {
		if r := recover(); r != nil {
			msg = fmt.Sprintf("panic: %v @ %s", r, panicSite())
		}
	}()
	f()
	return ""
}

// panicSite returns the innermost ice frame of the current panic stack.
func panicSite() string {
	pcs := make([]uintptr, 64)
	n := runtime.Callers(3, pcs)
	frames := runtime.CallersFrames(pcs[:n])
	for {
		fr, more := frames.Next()
		if strings.Contains(fr.Function, "blugelabs/ice") {
			fn := fr.Function[strings.LastIndex(fr.Function, "/")+1:]
			return fn
		}
		if !more {
			break
		}
	}
	return "?"
}

func WriteJSON(path string, v interface{}) error {
	b, err := json.MarshalIndent(v, "", " ")
	if err != nil {
		return err
	}
	tmp := path + ".tmp"
	if err := os.WriteFile(tmp, b, 0o644); err != nil {
		return err
	}
	return os.Rename(tmp, path)
}
