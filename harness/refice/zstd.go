/*
 * Copyright 2019 Dgraph Labs, Inc. and Contributors
 *
 * Licensed under the Apache License, Version 2.0 (the "License");
 * you may not use this file except in compliance with the License.
 * You may obtain a copy of the License at
 *
 *     http://www.apache.org/licenses/LICENSE-2.0
 *
 * Unless required by applicable law or agreed to in writing, software
 * distributed under the License is distributed on an "AS IS" BASIS,
 * WITHOUT WARRANTIES OR CONDITIONS OF ANY KIND, either express or implied.
 * See the License for the specific language governing permissions and
 * limitations under the License.
 */

package refice

import (
	"log"
	"sync"

	"github.com/klauspost/compress/zstd"
)

const ZSTDCompressionLevel = 3 // 1, 3, 9

var (
	decoder *zstd.Decoder
	encoder *zstd.Encoder

	encOnce, decOnce sync.Once
)

// ZSTDDecompress decompresses a block using ZSTD algorithm.
func ZSTDDecompress(dst, src []byte) ([]byte, error) {
	decOnce.Do(func() {
		var err error
		decoder, err = zstd.NewReader(nil)
		if err != nil {
			log.Panicf("ZSTDDecompress: %+v", err)
		}
	})
	return decoder.DecodeAll(src, dst[:0])
}

// ZSTDCompress compresses a block using ZSTD algorithm.
func ZSTDCompress(dst, src []byte, compressionLevel int) ([]byte, error) {
	encOnce.Do(func() {
		var err error
		level := zstd.EncoderLevelFromZstd(compressionLevel)
		encoder, err = zstd.NewWriter(nil, zstd.WithEncoderLevel(level))
		if err != nil {
			log.Panicf("ZSTDCompress: %+v", err)
		}
	})
	return encoder.EncodeAll(src, dst[:0]), nil
}

// ZSTDCompressBound returns the worst case size needed for a destination buffer.
// Klauspost ZSTD library does not provide any API for Compression Bound. This
// calculation is based on the DataDog ZSTD library.
// See https://pkg.go.dev/github.com/DataDog/zstd#CompressBound
func ZSTDCompressBound(srcSize int) int {
	lowLimit := 128 << 10 // 128 kB
	var margin int
	if srcSize < lowLimit {
		margin = (lowLimit - srcSize) >> 11
	}
	return srcSize + (srcSize >> 8) + margin
}
