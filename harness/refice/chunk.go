//  Copyright (c) 2020 Couchbase, Inc.
//
// Licensed under the Apache License, Version 2.0 (the "License");
// you may not use this file except in compliance with the License.
// You may obtain a copy of the License at
//
//              http://www.apache.org/licenses/LICENSE-2.0
//
// Unless required by applicable law or agreed to in writing, software
// distributed under the License is distributed on an "AS IS" BASIS,
// WITHOUT WARRANTIES OR CONDITIONS OF ANY KIND, either express or implied.
// See the License for the specific language governing permissions and
// limitations under the License.

package refice

import (
	"fmt"
)

const maxDocsToScanSequentially = 1024

// legacyChunkMode was the original chunk mode (always chunk size 1024)
// this mode is still used for chunking doc values.
const legacyChunkMode uint32 = 1024

const chunkModeV1 uint32 = 1025

// defaultChunkMode is the most recent improvement to chunking and should
// be used by default.
const defaultChunkMode uint32 = chunkModeV1

func getChunkSize(chunkMode uint32, cardinality, maxDocs uint64) (uint64, error) {
	switch {
	// any chunkMode <= 1024 will always chunk with chunkSize=chunkMode
	case chunkMode <= legacyChunkMode:
		// legacy chunk size
		return uint64(chunkMode), nil

	case chunkMode == chunkModeV1:
		// the observation that the fewest number of dense chunks is the most
		// desirable layout, given the built-in assumptions of chunking
		// (that we want to put an upper-bound on the number of items you must
		//  walk over without skipping, currently tuned to 1024)
		//
		// 1.  compute the number of chunks needed (max 1024/chunk)
		// 2.  convert to chunkSize, dividing into maxDocs
		numChunks := (cardinality / maxDocsToScanSequentially) + 1
		chunkSize := maxDocs / numChunks
		return chunkSize, nil
	}
	return 0, fmt.Errorf("unknown chunk mode %d", chunkMode)
}
