//  Copyright (c) 2020 Couchbase, Inc.
//
// Licensed under the Apache License, Version 2.0 (the "License");
// you may not use this file except in compliance with the License.
// You may obtain a copy of the License at
//
// 		http://www.apache.org/licenses/LICENSE-2.0
//
// Unless required by applicable law or agreed to in writing, software
// distributed under the License is distributed on an "AS IS" BASIS,
// WITHOUT WARRANTIES OR CONDITIONS OF ANY KIND, either express or implied.
// See the License for the specific language governing permissions and
// limitations under the License.

package refice

import (
	"hash/crc32"
	"io"
)

// countHashWriter is a wrapper around a Writer which counts the number of
// bytes which have been written and computes a crc32 hash
type countHashWriter struct {
	w   io.Writer
	crc uint32
	n   int
}

// newCountHashWriter returns a countHashWriter which wraps the provided Writer
func newCountHashWriter(w io.Writer) *countHashWriter {
	return &countHashWriter{w: w}
}

// Write writes the provided bytes to the wrapped writer and counts the bytes
func (c *countHashWriter) Write(b []byte) (int, error) {
	n, err := c.w.Write(b)
	c.crc = crc32.Update(c.crc, crc32.IEEETable, b[:n])
	c.n += n
	return n, err
}

// Count returns the number of bytes written
func (c *countHashWriter) Count() int {
	return c.n
}

// Sum32 returns the CRC-32 hash of the content written to this writer
func (c *countHashWriter) Sum32() uint32 {
	return c.crc
}
