//  Copyright (c) 2020 Couchbase, Inc.
//
// Licensed under the Apache License, Version 2.0 (the "License");
// you may not use this file except in compliance with the License.
// You may obtain a copy of the License at
//
// 		http://www.apache.org/licenses/LICENSE-2.0
//
// Unless required by applicable law or agreed to in writing, software
// distributed under the License is distributed on an "AS IS" BASIS,
// WITHOUT WARRANTIES OR CONDITIONS OF ANY KIND, either express or implied.
// See the License for the specific language governing permissions and
// limitations under the License.

package refice

import (
	"bytes"
	"encoding/binary"
	"io"
)

// We can safely use 0 to represent termNotEncoded since 0
// could never be a valid address for term location information.
// (stored field index is always non-empty and earlier in the
// file)
const termNotEncoded = 0

type chunkedIntCoder struct {
	final     []byte
	chunkSize uint64
	chunkBuf  bytes.Buffer
	chunkLens []uint64
	currChunk uint64

	buf        []byte
	compressed []byte
}

// newChunkedIntCoder returns a new chunk int coder which packs data into
// chunks based on the provided chunkSize and supports up to the specified
// maxDocNum
func newChunkedIntCoder(chunkSize, maxDocNum uint64) *chunkedIntCoder {
	total := maxDocNum/chunkSize + 1
	rv := &chunkedIntCoder{
		chunkSize: chunkSize,
		chunkLens: make([]uint64, total),
		final:     make([]byte, 0, 64),
	}

	return rv
}

// Reset lets you reuse this chunked int coder.  buffers are reset and reused
// from previous use.  you cannot change the chunk size or max doc num.
func (c *chunkedIntCoder) Reset() {
	c.final = c.final[:0]
	c.chunkBuf.Reset()
	c.currChunk = 0
	for i := range c.chunkLens {
		c.chunkLens[i] = 0
	}
}

// SetChunkSize changes the chunk size.  It is only valid to do so
// with a new chunkedIntCoder, or immediately after calling Reset()
func (c *chunkedIntCoder) SetChunkSize(chunkSize, maxDocNum uint64) {
	total := int(maxDocNum/chunkSize + 1)
	c.chunkSize = chunkSize
	if cap(c.chunkLens) < total {
		c.chunkLens = make([]uint64, total)
	} else {
		c.chunkLens = c.chunkLens[:total]
	}
}

// Add encodes the provided integers into the correct chunk for the provided
// doc num.  You MUST call Add() with increasing docNums.
func (c *chunkedIntCoder) Add(docNum uint64, vals ...uint64) error {
	chunk := docNum / c.chunkSize
	if chunk != c.currChunk {
		// starting a new chunk
		c.Close()
		c.chunkBuf.Reset()
		c.currChunk = chunk
	}

	if len(c.buf) < binary.MaxVarintLen64 {
		c.buf = make([]byte, binary.MaxVarintLen64)
	}

	for _, val := range vals {
		wb := binary.PutUvarint(c.buf, val)
		_, err := c.chunkBuf.Write(c.buf[:wb])
		if err != nil {
			return err
		}
	}

	return nil
}

// Close indicates you are done calling Add() this allows the final chunk
// to be encoded.
func (c *chunkedIntCoder) Close() error {
	var err error
	c.compressed, err = ZSTDCompress(c.compressed[:cap(c.compressed)], c.chunkBuf.Bytes(), ZSTDCompressionLevel)
	if err != nil {
		return err
	}
	c.chunkLens[c.currChunk] = uint64(len(c.compressed))
	c.final = append(c.final, c.compressed...)
	c.currChunk = uint64(cap(c.chunkLens)) // sentinel to detect double close
	return nil
}

// Write commits all the encoded chunked integers to the provided writer.
func (c *chunkedIntCoder) Write(w io.Writer) (int, error) {
	bufNeeded := binary.MaxVarintLen64 * (1 + len(c.chunkLens))
	if len(c.buf) < bufNeeded {
		c.buf = make([]byte, bufNeeded)
	}
	buf := c.buf

	// convert the chunk lengths into chunk offsets
	chunkOffsets := modifyLengthsToEndOffsets(c.chunkLens)

	// write out the number of chunks & each chunk offsets
	n := binary.PutUvarint(buf, uint64(len(chunkOffsets)))
	for _, chunkOffset := range chunkOffsets {
		n += binary.PutUvarint(buf[n:], chunkOffset)
	}

	tw, err := w.Write(buf[:n])
	if err != nil {
		return tw, err
	}

	// write out the data
	nw, err := w.Write(c.final)
	tw += nw
	if err != nil {
		return tw, err
	}
	return tw, nil
}

// writeAt commits all the encoded chunked integers to the provided writer
// and returns the starting offset, total bytes written and an error
func (c *chunkedIntCoder) writeAt(w io.Writer) (startOffset uint64, err error) {
	startOffset = uint64(termNotEncoded)
	if len(c.final) == 0 {
		return startOffset, nil
	}

	if chw := w.(*countHashWriter); chw != nil {
		startOffset = uint64(chw.Count())
	}

	_, err = c.Write(w)
	return startOffset, err
}

func (c *chunkedIntCoder) FinalSize() int {
	return len(c.final)
}

// modifyLengthsToEndOffsets converts the chunk length array
// to a chunk offset array. The readChunkBoundary
// will figure out the start and end of every chunk from
// these offsets. Starting offset of i'th index is stored
// in i-1'th position except for 0'th index and ending offset
// is stored at i'th index position.
// For 0'th element, starting position is always zero.
// eg:
// Lens ->  5 5 5 5 => 5 10 15 20
// Lens ->  0 5 0 5 => 0 5 5 10
// Lens ->  0 0 0 5 => 0 0 0 5
// Lens ->  5 0 0 0 => 5 5 5 5
// Lens ->  0 5 0 0 => 0 5 5 5
// Lens ->  0 0 5 0 => 0 0 5 5
func modifyLengthsToEndOffsets(lengths []uint64) []uint64 {
	var runningOffset uint64
	var index, i int
	for i = 1; i <= len(lengths); i++ {
		runningOffset += lengths[i-1]
		lengths[index] = runningOffset
		index++
	}
	return lengths
}

func readChunkBoundary(chunk int, offsets []uint64) (start, end uint64) {
	if chunk > 0 {
		start = offsets[chunk-1]
	}
	return start, offsets[chunk]
}
