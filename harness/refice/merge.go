//  Copyright (c) 2020 Couchbase, Inc.
//
// Licensed under the Apache License, Version 2.0 (the "License");
// you may not use this file except in compliance with the License.
// You may obtain a copy of the License at
//
// 		http://www.apache.org/licenses/LICENSE-2.0
//
// Unless required by applicable law or agreed to in writing, software
// distributed under the License is distributed on an "AS IS" BASIS,
// WITHOUT WARRANTIES OR CONDITIONS OF ANY KIND, either express or implied.
// See the License for the specific language governing permissions and
// limitations under the License.

package refice

import (
	"bufio"
	"bytes"
	"encoding/binary"
	"fmt"
	"io"
	"math"
	"sort"

	"github.com/RoaringBitmap/roaring"
	"github.com/blevesearch/vellum"
	segment "github.com/blugelabs/bluge_segment_api"
)

const docDropped = math.MaxInt64 // sentinel docNum to represent a deleted doc

// TODO this should be going away soon
const _idFieldName = "_id"

type Merger struct {
	segments        []segment.Segment
	drops           []*roaring.Bitmap
	newDocNums      [][]uint64
	mergeBufferSize int
}

func (m *Merger) WriteTo(w io.Writer, closeCh chan struct{}) (n int64, err error) {
	var sz uint64

	bw := bufio.NewWriterSize(w, m.mergeBufferSize)

	m.newDocNums, sz, err = merge(m.segments, m.drops, bw, closeCh)
	if err != nil {
		return
	}

	n = int64(sz)
	err = bw.Flush()
	if err != nil {
		return n, err
	}

	return
}

func (m *Merger) DocumentNumbers() [][]uint64 {
	return m.newDocNums
}

func Merge(segments []segment.Segment, drops []*roaring.Bitmap, mergeBufferSize int) segment.Merger {
	return &Merger{
		segments:        segments,
		drops:           drops,
		mergeBufferSize: mergeBufferSize,
	}
}

func merge(segments []segment.Segment, drops []*roaring.Bitmap,
	w io.Writer, closeCh chan struct{}) (newDocNums [][]uint64, n uint64, err error) {
	segmentBases := make([]*Segment, len(segments))
	for segmenti, seg := range segments {
		switch segmentx := seg.(type) {
		case *Segment:
			segmentBases[segmenti] = segmentx
		default:
			panic(fmt.Sprintf("oops, unexpected segment type: %T", seg))
		}
	}
	return mergeSegmentBasesWriter(segmentBases, drops, w, defaultChunkMode, closeCh)
}

func mergeSegmentBasesWriter(segmentBases []*Segment, drops []*roaring.Bitmap, w io.Writer,
	chunkMode uint32, closeCh chan struct{}) (
	newDocNums [][]uint64, n uint64, err error) {
	// wrap it for counting (tracking offsets)
	cr := newCountHashWriter(w)

	var footer *footer
	newDocNums, footer, err =
		mergeToWriter(segmentBases, drops, chunkMode, cr, closeCh)
	if err != nil {
		return nil, 0, err
	}
	footer.crc = cr.Sum32()
	footer.chunkMode = chunkMode

	err = persistFooter(footer, cr)
	if err != nil {
		return nil, 0, err
	}

	return newDocNums, uint64(cr.Count()), nil
}

func mergeToWriter(segments []*Segment, drops []*roaring.Bitmap,
	chunkMode uint32, cr *countHashWriter, closeCh chan struct{}) (
	newDocNums [][]uint64, footerVal *footer,
	err error) {
	docValueOffset := uint64(fieldNotUninverted)

	fieldsSame, fieldsInv := mergeFields(segments)
	fieldsMap := mapFields(fieldsInv)

	numDocs := computeNewDocCount(segments, drops)

	if isClosed(closeCh) {
		return nil, nil, segment.ErrClosed
	}

	var storedIndexOffset uint64
	var fieldDocs, fieldFreqs map[uint16]uint64
	var dictLocs []uint64
	if numDocs > 0 {
		storedIndexOffset, newDocNums, err = mergeStoredAndRemap(segments, drops,
			fieldsMap, fieldsInv, fieldsSame, numDocs, cr, closeCh)
		if err != nil {
			return nil, nil, err
		}

		dictLocs, fieldDocs, fieldFreqs, docValueOffset, err = persistMergedRest(segments, drops,
			fieldsInv, fieldsMap,
			newDocNums, numDocs, chunkMode, cr, closeCh)
		if err != nil {
			return nil, nil, err
		}
	} else {
		dictLocs = make([]uint64, len(fieldsInv))
	}

	var fieldsIndexOffset uint64
	fieldsIndexOffset, err = persistFields(fieldsInv, fieldDocs, fieldFreqs, cr, dictLocs)
	if err != nil {
		return nil, nil, err
	}

	return newDocNums, &footer{
		numDocs:           numDocs,
		storedIndexOffset: storedIndexOffset,
		fieldsIndexOffset: fieldsIndexOffset,
		docValueOffset:    docValueOffset,
	}, nil
}

// mapFields takes the fieldsInv list and returns a map of fieldName
// to fieldID+1
func mapFields(fields []string) map[string]uint16 {
	rv := make(map[string]uint16, len(fields))
	for i, fieldName := range fields {
		rv[fieldName] = uint16(i) + 1
	}
	return rv
}

// computeNewDocCount determines how many documents will be in the newly
// merged segment when obsoleted docs are dropped
func computeNewDocCount(segments []*Segment, drops []*roaring.Bitmap) uint64 {
	var newDocCount uint64
	for segI, seg := range segments {
		newDocCount += seg.footer.numDocs
		if drops[segI] != nil {
			newDocCount -= drops[segI].GetCardinality()
		}
	}
	return newDocCount
}

func persistMergedRest(segments []*Segment, dropsIn []*roaring.Bitmap,
	fieldsInv []string, fieldsMap map[string]uint16,
	newDocNumsIn [][]uint64, newSegDocCount uint64, chunkMode uint32,
	w *countHashWriter, closeCh chan struct{}) (dictLocs []uint64, fieldDocs,
	fieldFreqs map[uint16]uint64, docValueOffset uint64, err error) {
	var bufMaxVarintLen64 = make([]byte, binary.MaxVarintLen64)

	dictLocs = make([]uint64, len(fieldsInv))
	fieldDvLocsStart := make([]uint64, len(fieldsInv))
	fieldDvLocsEnd := make([]uint64, len(fieldsInv))

	// these int coders are initialized with chunk size 1024
	// however this will be reset to the correct chunk size
	// while processing each individual field-term section
	tfEncoder := newChunkedIntCoder(uint64(legacyChunkMode), newSegDocCount-1)
	locEncoder := newChunkedIntCoder(uint64(legacyChunkMode), newSegDocCount-1)

	var vellumBuf bytes.Buffer
	newVellum, err := vellum.New(&vellumBuf, nil)
	if err != nil {
		return nil, nil, nil, 0, err
	}

	newRoaring := roaring.NewBitmap()

	fieldDocs = map[uint16]uint64{}
	fieldDocTracking := roaring.NewBitmap()
	fieldFreqs = map[uint16]uint64{}

	// for each field
	for fieldID, fieldName := range fieldsInv {
		err = persistMergedRestField(segments, dropsIn, fieldsMap, newDocNumsIn, newSegDocCount, chunkMode, w,
			closeCh, fieldName, newRoaring, fieldDocTracking, tfEncoder, locEncoder, newVellum, &vellumBuf,
			bufMaxVarintLen64, fieldFreqs, fieldID, dictLocs, fieldDvLocsStart, fieldDvLocsEnd)
		if err != nil {
			return nil, nil, nil, 0, err
		}

		// reset vellum buffer and vellum builder
		vellumBuf.Reset()
		err = newVellum.Reset(&vellumBuf)
		if err != nil {
			return nil, nil, nil, 0, err
		}

		fieldDocs[uint16(fieldID)] += fieldDocTracking.GetCardinality()
	}

	docValueOffset, err = writeDvLocs(w, bufMaxVarintLen64, fieldDvLocsStart, fieldDvLocsEnd)
	if err != nil {
		return nil, nil, nil, 0, err
	}

	return dictLocs, fieldDocs, fieldFreqs, docValueOffset, nil
}

func persistMergedRestField(segments []*Segment, dropsIn []*roaring.Bitmap, fieldsMap map[string]uint16,
	newDocNumsIn [][]uint64, newSegDocCount uint64, chunkMode uint32, w *countHashWriter, closeCh chan struct{},
	fieldName string, newRoaring, fieldDocTracking *roaring.Bitmap, tfEncoder, locEncoder *chunkedIntCoder,
	newVellum *vellum.Builder, vellumBuf *bytes.Buffer, bufMaxVarintLen64 []byte, fieldFreqs map[uint16]uint64,
	fieldID int, dictLocs, fieldDvLocsStart, fieldDvLocsEnd []uint64) error {
	var postings *PostingsList
	var postItr *PostingsIterator
	var bufLoc []uint64

	// collect FST iterators from all active segments for this field
	newDocNums, drops, dicts, itrs, segmentsInFocus, err :=
		setupActiveForField(segments, dropsIn, newDocNumsIn, closeCh, fieldName)
	if err != nil {
		return err
	}

	var prevTerm []byte

	newRoaring.Clear()
	fieldDocTracking.Clear()

	var lastDocNum uint64
	var lastFreq, lastNorm uint64

	enumerator, err := newEnumerator(itrs)

	for err == nil {
		term, itrI, postingsOffset := enumerator.Current()

		if !bytes.Equal(prevTerm, term) {
			// check for the closure in meantime
			if isClosed(closeCh) {
				return segment.ErrClosed
			}

			// if the term changed, write out the info collected for the previous term
			err = finishTerm(w, newRoaring, tfEncoder, locEncoder, newVellum, bufMaxVarintLen64, prevTerm, &lastDocNum,
				&lastFreq, &lastNorm)
			if err != nil {
				return err
			}
		}

		if !bytes.Equal(prevTerm, term) || prevTerm == nil {
			err = prepareNewTerm(newSegDocCount, chunkMode, tfEncoder, locEncoder, fieldFreqs, fieldID, enumerator,
				dicts, drops)
			if err != nil {
				return err
			}
		}

		postings, err = dicts[itrI].postingsListFromOffset(
			postingsOffset, drops[itrI], postings)
		if err != nil {
			return err
		}

		postItr, err = postings.iterator(true, true, true, postItr)
		if err != nil {
			return err
		}

		// can no longer optimize by copying, since chunk factor could have changed
		lastDocNum, lastFreq, lastNorm, bufLoc, err = mergeTermFreqNormLocs(
			fieldsMap, postItr, newDocNums[itrI], newRoaring,
			tfEncoder, locEncoder, bufLoc, fieldDocTracking)

		if err != nil {
			return err
		}

		prevTerm = prevTerm[:0] // copy to prevTerm in case Next() reuses term mem
		prevTerm = append(prevTerm, term...)

		err = enumerator.Next()
	}
	if err != vellum.ErrIteratorDone {
		return err
	}

	err = finishTerm(w, newRoaring, tfEncoder, locEncoder, newVellum, bufMaxVarintLen64, prevTerm, &lastDocNum,
		&lastFreq, &lastNorm)
	if err != nil {
		return err
	}

	err = writeMergedDict(w, newVellum, vellumBuf, bufMaxVarintLen64, fieldID, dictLocs)
	if err != nil {
		return err
	}

	err = buildMergedDocVals(newSegDocCount, w, closeCh, fieldName, fieldID, fieldDvLocsStart, fieldDvLocsEnd,
		segmentsInFocus, newDocNums)
	if err != nil {
		return err
	}
	return nil
}

func writeMergedDict(w *countHashWriter, newVellum io.Closer, vellumBuf *bytes.Buffer,
	bufMaxVarintLen64 []byte, fieldID int, dictLocs []uint64) error {
	dictOffset := uint64(w.Count())

	err := newVellum.Close()
	if err != nil {
		return err
	}
	vellumData := vellumBuf.Bytes()

	// write out the length of the vellum data
	n := binary.PutUvarint(bufMaxVarintLen64, uint64(len(vellumData)))
	_, err = w.Write(bufMaxVarintLen64[:n])
	if err != nil {
		return err
	}

	// write this vellum to disk
	_, err = w.Write(vellumData)
	if err != nil {
		return err
	}

	dictLocs[fieldID] = dictOffset
	return nil
}

func buildMergedDocVals(newSegDocCount uint64, w *countHashWriter, closeCh chan struct{}, fieldName string, fieldID int,
	fieldDvLocsStart, fieldDvLocsEnd []uint64, segmentsInFocus []*Segment, newDocNums [][]uint64) error {
	// get the field doc value offset (start)
	fieldDvLocsStart[fieldID] = uint64(w.Count())

	// update the field doc values
	// NOTE: doc values continue to use legacy chunk mode
	chunkSize, err := getChunkSize(legacyChunkMode, 0, 0)
	if err != nil {
		return err
	}
	fdvEncoder := newChunkedContentCoder(chunkSize, newSegDocCount-1, w, true)

	fdvReadersAvailable := false
	var dvIterClone *docValueReader
	for segmentI, seg := range segmentsInFocus {
		segmentI := segmentI
		// check for the closure in meantime
		if isClosed(closeCh) {
			return segment.ErrClosed
		}

		fieldIDPlus1 := seg.fieldsMap[fieldName]
		if dvIter, exists := seg.fieldDvReaders[fieldIDPlus1-1]; exists &&
			dvIter != nil {
			fdvReadersAvailable = true
			dvIterClone = dvIter.cloneInto(dvIterClone)
			err = dvIterClone.iterateAllDocValues(seg, func(docNum uint64, terms []byte) error {
				if newDocNums[segmentI][docNum] == docDropped {
					return nil
				}
				err2 := fdvEncoder.Add(newDocNums[segmentI][docNum], terms)
				if err2 != nil {
					return err2
				}
				return nil
			})
			if err != nil {
				return err
			}
		}
	}

	if fdvReadersAvailable {
		err = fdvEncoder.Close()
		if err != nil {
			return err
		}

		// persist the doc value details for this field
		_, err = fdvEncoder.Write()
		if err != nil {
			return err
		}

		// get the field doc value offset (end)
		fieldDvLocsEnd[fieldID] = uint64(w.Count())
	} else {
		fieldDvLocsStart[fieldID] = fieldNotUninverted
		fieldDvLocsEnd[fieldID] = fieldNotUninverted
	}
	return nil
}

func prepareNewTerm(newSegDocCount uint64, chunkMode uint32, tfEncoder, locEncoder *chunkedIntCoder,
	fieldFreqs map[uint16]uint64, fieldID int, enumerator *enumerator, dicts []*Dictionary,
	drops []*roaring.Bitmap) error {
	var err error

	// compute cardinality of field-term in new seg
	var newCard uint64
	lowItrIdxs, lowItrVals := enumerator.GetLowIdxsAndValues()
	for i, idx := range lowItrIdxs {
		var pl *PostingsList
		pl, err = dicts[idx].postingsListFromOffset(lowItrVals[i], drops[idx], nil)
		if err != nil {
			return err
		}
		newCard += pl.Count()
		fieldFreqs[uint16(fieldID)] += newCard
	}
	// compute correct chunk size with this
	var chunkSize uint64
	chunkSize, err = getChunkSize(chunkMode, newCard, newSegDocCount)
	if err != nil {
		return err
	}
	// update encoders chunk
	tfEncoder.SetChunkSize(chunkSize, newSegDocCount-1)
	locEncoder.SetChunkSize(chunkSize, newSegDocCount-1)
	return nil
}

func finishTerm(w *countHashWriter, newRoaring *roaring.Bitmap, tfEncoder, locEncoder *chunkedIntCoder,
	newVellum *vellum.Builder, bufMaxVarintLen64, term []byte, lastDocNum, lastFreq, lastNorm *uint64) error {
	tfEncoder.Close()
	locEncoder.Close()

	// determines whether to use "1-hit" encoding optimization
	// when a term appears in only 1 doc, with no loc info,
	// has freq of 1, and the docNum fits into 31-bits
	use1HitEncoding := func(termCardinality uint64) (bool, uint64, uint64) {
		if termCardinality == uint64(1) && locEncoder.FinalSize() <= 0 {
			docNum := uint64(newRoaring.Minimum())
			if under32Bits(docNum) && docNum == *lastDocNum && *lastFreq == 1 {
				return true, docNum, *lastNorm
			}
		}
		return false, 0, 0
	}

	postingsOffset, err := writePostings(newRoaring,
		tfEncoder, locEncoder, use1HitEncoding, w, bufMaxVarintLen64)
	if err != nil {
		return err
	}

	if postingsOffset > 0 {
		err = newVellum.Insert(term, postingsOffset)
		if err != nil {
			return err
		}
	}

	newRoaring.Clear()

	tfEncoder.Reset()
	locEncoder.Reset()

	*lastDocNum = 0
	*lastFreq = 0
	*lastNorm = 0

	return nil
}

func writeDvLocs(w *countHashWriter, bufMaxVarintLen64 []byte, fieldDvLocsStart, fieldDvLocsEnd []uint64) (uint64, error) {
	fieldDvLocsOffset := uint64(w.Count())

	buf := bufMaxVarintLen64
	for i := 0; i < len(fieldDvLocsStart); i++ {
		n := binary.PutUvarint(buf, fieldDvLocsStart[i])
		_, err := w.Write(buf[:n])
		if err != nil {
			return 0, err
		}
		n = binary.PutUvarint(buf, fieldDvLocsEnd[i])
		_, err = w.Write(buf[:n])
		if err != nil {
			return 0, err
		}
	}
	return fieldDvLocsOffset, nil
}

func setupActiveForField(segments []*Segment, dropsIn []*roaring.Bitmap, newDocNumsIn [][]uint64, closeCh chan struct{},
	fieldName string) (newDocNums [][]uint64, drops []*roaring.Bitmap, dicts []*Dictionary, itrs []vellum.Iterator,
	segmentsInFocus []*Segment, err error) {
	for segmentI, seg := range segments {
		// check for the closure in meantime
		if isClosed(closeCh) {
			return nil, nil, nil, nil, nil, segment.ErrClosed
		}

		var dict *Dictionary
		dict, err = seg.dictionary(fieldName)
		if err != nil {
			return nil, nil, nil, nil, nil, err
		}
		if dict != nil && dict.fst != nil {
			var itr *vellum.FSTIterator
			itr, err = dict.fst.Iterator(nil, nil)
			if err != nil && err != vellum.ErrIteratorDone {
				return nil, nil, nil, nil, nil, err
			}
			if itr != nil {
				newDocNums = append(newDocNums, newDocNumsIn[segmentI])
				if dropsIn[segmentI] != nil && !dropsIn[segmentI].IsEmpty() {
					drops = append(drops, dropsIn[segmentI])
				} else {
					drops = append(drops, nil)
				}
				dicts = append(dicts, dict)
				itrs = append(itrs, itr)
				segmentsInFocus = append(segmentsInFocus, seg)
			}
		}
	}
	return newDocNums, drops, dicts, itrs, segmentsInFocus, nil
}

const numUintsLocation = 4

func mergeTermFreqNormLocs(fieldsMap map[string]uint16, postItr *PostingsIterator,
	newDocNums []uint64, newRoaring *roaring.Bitmap,
	tfEncoder, locEncoder *chunkedIntCoder, bufLoc []uint64, docTracking *roaring.Bitmap) (
	lastDocNum, lastFreq, lastNorm uint64, bufLocOut []uint64, err error) {
	next, err := postItr.Next()
	for next != nil && err == nil {
		hitNewDocNum := newDocNums[next.Number()]
		if hitNewDocNum == docDropped {
			return 0, 0, 0, nil, fmt.Errorf("see hit with dropped docNum")
		}

		newRoaring.Add(uint32(hitNewDocNum))
		docTracking.Add(uint32(hitNewDocNum))

		nextFreq := next.Frequency()
		nextNorm := uint64(math.Float32bits(float32(next.Norm())))

		locs := next.Locations()

		err = tfEncoder.Add(hitNewDocNum,
			encodeFreqHasLocs(uint64(nextFreq), len(locs) > 0), nextNorm)
		if err != nil {
			return 0, 0, 0, nil, err
		}

		if len(locs) > 0 {
			numBytesLocs := 0
			for _, loc := range locs {
				numBytesLocs += totalUvarintBytes(uint64(fieldsMap[loc.Field()]-1),
					uint64(loc.Pos()), uint64(loc.Start()), uint64(loc.End()))
			}

			err = locEncoder.Add(hitNewDocNum, uint64(numBytesLocs))
			if err != nil {
				return 0, 0, 0, nil, err
			}

			for _, loc := range locs {
				if cap(bufLoc) < numUintsLocation {
					bufLoc = make([]uint64, 0, numUintsLocation)
				}
				args := bufLoc[0:4]
				args[0] = uint64(fieldsMap[loc.Field()] - 1)
				args[1] = uint64(loc.Pos())
				args[2] = uint64(loc.Start())
				args[3] = uint64(loc.End())
				err = locEncoder.Add(hitNewDocNum, args...)
				if err != nil {
					return 0, 0, 0, nil, err
				}
			}
		}

		lastDocNum = hitNewDocNum
		lastFreq = uint64(nextFreq)
		lastNorm = nextNorm

		next, err = postItr.Next()
	}

	return lastDocNum, lastFreq, lastNorm, bufLoc, err
}

func mergeStoredAndRemap(segments []*Segment, drops []*roaring.Bitmap,
	fieldsMap map[string]uint16, fieldsInv []string, fieldsSame bool, newSegDocCount uint64,
	w *countHashWriter, closeCh chan struct{}) (storedIndexOffset uint64, newDocNums [][]uint64, err error) {
	var newDocNum uint64

	var data []byte
	var metaBuf bytes.Buffer
	varBuf := make([]byte, binary.MaxVarintLen64)
	metaEncode := func(val uint64) (int, error) {
		wb := binary.PutUvarint(varBuf, val)
		return metaBuf.Write(varBuf[:wb])
	}

	vals := make([][][]byte, len(fieldsInv))

	docNumOffsets := make([]uint64, newSegDocCount)

	vdc := visitDocumentCtxPool.Get().(*visitDocumentCtx)
	defer visitDocumentCtxPool.Put(vdc)

	// document chunk coder
	docChunkCoder := newChunkedDocumentCoder(uint64(defaultDocumentChunkSize), w)

	// for each segment
	for segI, seg := range segments {
		// check for the closure in meantime
		if isClosed(closeCh) {
			return 0, nil, segment.ErrClosed
		}

		segNewDocNums := make([]uint64, seg.footer.numDocs)

		dropsI := drops[segI]

		// optimize when the field mapping is the same across all
		// segments and there are no deletions, via byte-copying
		// of stored docs bytes directly to the writer
		if fieldsSame && (dropsI == nil || dropsI.GetCardinality() == 0) {
			err := seg.copyStoredDocs(newDocNum, docNumOffsets, docChunkCoder)
			if err != nil {
				return 0, nil, err
			}

			for i := uint64(0); i < seg.footer.numDocs; i++ {
				segNewDocNums[i] = newDocNum
				newDocNum++
			}
			newDocNums = append(newDocNums, segNewDocNums)

			continue
		}

		var err2 error
		newDocNum, err2 = mergeStoredAndRemapSegment(seg, dropsI, segNewDocNums, newDocNum, &metaBuf, data,
			fieldsInv, vals, vdc, fieldsMap, metaEncode, docNumOffsets, docChunkCoder)
		if err2 != nil {
			return 0, nil, err2
		}

		newDocNums = append(newDocNums, segNewDocNums)
	}

	// document chunk coder
	if err := docChunkCoder.Write(); err != nil {
		return 0, nil, err
	}

	// return value is the start of the stored index
	storedIndexOffset = uint64(w.Count())

	// now write out the stored doc index
	for _, docNumOffset := range docNumOffsets {
		err := binary.Write(w, binary.BigEndian, docNumOffset)
		if err != nil {
			return 0, nil, err
		}
	}

	return storedIndexOffset, newDocNums, nil
}

func mergeStoredAndRemapSegment(seg *Segment, dropsI *roaring.Bitmap, segNewDocNums []uint64, newDocNum uint64,
	metaBuf *bytes.Buffer, data []byte, fieldsInv []string, vals [][][]byte, vdc *visitDocumentCtx,
	fieldsMap map[string]uint16, metaEncode func(val uint64) (int, error), docNumOffsets []uint64,
	docChunkCoder *chunkedDocumentCoder) (uint64, error) {
	// for each doc num
	for docNum := uint64(0); docNum < seg.footer.numDocs; docNum++ {
		// TODO: roaring's API limits docNums to 32-bits?
		if dropsI != nil && dropsI.Contains(uint32(docNum)) {
			segNewDocNums[docNum] = docDropped
			continue
		}

		segNewDocNums[docNum] = newDocNum

		curr := 0
		metaBuf.Reset()
		data = data[:0]

		// collect all the data
		for i := 0; i < len(fieldsInv); i++ {
			vals[i] = vals[i][:0]
		}
		err := seg.visitDocument(vdc, docNum, func(field string, value []byte) bool {
			fieldID := int(fieldsMap[field]) - 1
			vals[fieldID] = append(vals[fieldID], value)
			return true
		})
		if err != nil {
			return 0, err
		}

		// now walk the fields in order
		for fieldID := 0; fieldID < len(fieldsInv); fieldID++ {
			storedFieldValues := vals[fieldID]

			var err2 error
			curr, data, err2 = encodeStoredFieldValues(fieldID,
				storedFieldValues, curr, metaEncode, data)
			if err2 != nil {
				return 0, err2
			}
		}

		metaBytes := metaBuf.Bytes()

		// record where we're about to start writing
		docNumOffsets[newDocNum] = docChunkCoder.Size()
		// document chunk line
		if _, err := docChunkCoder.Add(newDocNum, metaBytes, data); err != nil {
			return 0, err
		}

		newDocNum++
	}
	return newDocNum, nil
}

// copyStoredDocs writes out a segment's stored doc info, optimized by
// using a single Write() call for the entire set of bytes.  The
// newDocNumOffsets is filled with the new offsets for each doc.
func (s *Segment) copyStoredDocs(newDocNum uint64, newDocNumOffsets []uint64, docChunkCoder *chunkedDocumentCoder) error {
	if s.footer.numDocs <= 0 {
		return nil
	}

	// visit documents and rewrite to chunk
	uncompressed := make([]byte, 0)
	for i := 0; i < len(s.storedFieldChunkOffsets)-1; i++ {
		chunkOffstart := s.storedFieldChunkOffsets[i]
		chunkOffend := s.storedFieldChunkOffsets[i+1]
		if chunkOffstart == chunkOffend {
			continue
		}
		compressed, err := s.data.Read(int(chunkOffstart), int(chunkOffend))
		if err != nil {
			return err
		}
		uncompressed, err = ZSTDDecompress(uncompressed[:cap(uncompressed)], compressed)
		if err != nil {
			return err
		}
		storedOffset := 0
		n := 0
		for storedOffset < len(uncompressed) {
			n = 0
			metaDataLenEnd := storedOffset + binary.MaxVarintLen64
			if metaDataLenEnd > cap(uncompressed) {
				metaDataLenEnd = cap(uncompressed)
			}
			metaLenData := uncompressed[storedOffset:metaDataLenEnd]
			metaLen, read := binary.Uvarint(metaLenData)
			n += read
			dataLenEnd := storedOffset + n + binary.MaxVarintLen64
			if dataLenEnd > cap(uncompressed) {
				dataLenEnd = cap(uncompressed)
			}
			dataLenData := uncompressed[storedOffset+n : dataLenEnd]
			dataLen, read := binary.Uvarint(dataLenData)
			n += read
			newDocNumOffsets[newDocNum] = docChunkCoder.Size()
			metaBytes := uncompressed[storedOffset+n : storedOffset+n+int(metaLen)]
			data := uncompressed[storedOffset+n+int(metaLen) : storedOffset+n+int(metaLen+dataLen)]
			if _, err := docChunkCoder.Add(newDocNum, metaBytes, data); err != nil {
				return err
			}
			storedOffset += n + int(metaLen+dataLen)
			newDocNum++
		}
	}

	return nil
}

// mergeFields builds a unified list of fields used across all the
// input segments, and computes whether the fields are the same across
// segments (which depends on fields to be sorted in the same way
// across segments)
func mergeFields(segments []*Segment) (same bool, fields []string) {
	same = true

	var segment0Fields []string
	if len(segments) > 0 {
		segment0Fields = segments[0].Fields()
	}

	fieldsExist := map[string]struct{}{}
	for _, seg := range segments {
		fields = seg.Fields()
		for fieldi, field := range fields {
			fieldsExist[field] = struct{}{}
			if len(segment0Fields) != len(fields) || segment0Fields[fieldi] != field {
				same = false
			}
		}
	}

	fields = make([]string, 0, len(fieldsExist))
	// ensure _id stays first
	fields = append(fields, _idFieldName)
	for k := range fieldsExist {
		if k != _idFieldName {
			fields = append(fields, k)
		}
	}

	sort.Strings(fields[1:]) // leave _id as first

	return same, fields
}

func isClosed(closeCh chan struct{}) bool {
	select {
	case <-closeCh:
		return true
	default:
		return false
	}
}
