//  Copyright (c) 2020 The Bluge Authors.
//
// Licensed under the Apache License, Version 2.0 (the "License");
// you may not use this file except in compliance with the License.
// You may obtain a copy of the License at
//
// 		http://www.apache.org/licenses/LICENSE-2.0
//
// Unless required by applicable law or agreed to in writing, software
// distributed under the License is distributed on an "AS IS" BASIS,
// WITHOUT WARRANTIES OR CONDITIONS OF ANY KIND, either express or implied.
// See the License for the specific language governing permissions and
// limitations under the License.

package refice

import (
	"encoding/binary"
	"fmt"

	segment "github.com/blugelabs/bluge_segment_api"
)

// Ice footer
//
// |========|========|========|========|====|====|====|
// |     D# |     SF |      F |    FDV | CM |  V | CC |
// |========|====|===|====|===|====|===|====|====|====|
//
// D#  - number of docs
// SF  - stored fields index offset
//  F  - field index offset
// FDV - field doc values offset
// CM  - chunk Mode
//  V  - version
// CC  - crc32

type footer struct {
	storedIndexOffset uint64
	docValueOffset    uint64
	fieldsIndexOffset uint64
	numDocs           uint64
	crc               uint32
	version           uint32
	chunkMode         uint32
}

const (
	crcWidth          = 4
	verWidth          = 4
	chunkWidth        = 4
	fdvOffsetWidth    = 8
	fieldsOffsetWidth = 8
	storedOffsetWidth = 8
	numDocsWidth      = 8
	footerLen         = crcWidth + verWidth + chunkWidth + fdvOffsetWidth +
		fieldsOffsetWidth + storedOffsetWidth + numDocsWidth
)

func parseFooter(data *segment.Data) (*footer, error) {
	if data.Len() < footerLen {
		return nil, fmt.Errorf("data len %d less than footer len %d", data.Len(),
			footerLen)
	}

	rv := &footer{}
	crcOffset := data.Len() - crcWidth
	crcData, err := data.Read(crcOffset, crcOffset+crcWidth)
	if err != nil {
		return nil, err
	}
	rv.crc = binary.BigEndian.Uint32(crcData)

	verOffset := crcOffset - verWidth
	verData, err := data.Read(verOffset, verOffset+verWidth)
	if err != nil {
		return nil, err
	}
	rv.version = binary.BigEndian.Uint32(verData)
	if rv.version != Version {
		return nil, fmt.Errorf("unsupported version %d", rv.version)
	}

	chunkOffset := verOffset - chunkWidth
	chunkData, err := data.Read(chunkOffset, chunkOffset+chunkWidth)
	if err != nil {
		return nil, err
	}
	rv.chunkMode = binary.BigEndian.Uint32(chunkData)

	docValueOffset := chunkOffset - fdvOffsetWidth
	docValueData, err := data.Read(docValueOffset, docValueOffset+fdvOffsetWidth)
	if err != nil {
		return nil, err
	}
	rv.docValueOffset = binary.BigEndian.Uint64(docValueData)

	fieldsIndexOffset := docValueOffset - fieldsOffsetWidth
	fieldsData, err := data.Read(fieldsIndexOffset, fieldsIndexOffset+fieldsOffsetWidth)
	if err != nil {
		return nil, err
	}
	rv.fieldsIndexOffset = binary.BigEndian.Uint64(fieldsData)

	storedIndexOffset := fieldsIndexOffset - storedOffsetWidth
	storedData, err := data.Read(storedIndexOffset, storedIndexOffset+storedOffsetWidth)
	if err != nil {
		return nil, err
	}
	rv.storedIndexOffset = binary.BigEndian.Uint64(storedData)

	numDocsOffset := storedIndexOffset - numDocsWidth
	numDocsData, err := data.Read(numDocsOffset, numDocsOffset+numDocsWidth)
	if err != nil {
		return nil, err
	}
	rv.numDocs = binary.BigEndian.Uint64(numDocsData)
	return rv, nil
}
