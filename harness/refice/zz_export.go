package refice

// Frozen copy of the non-test sources of blugelabs/ice at the pinned commit 76983be (package
// clause renamed, nothing else changed). It is the *reference implementation* of format version 2
// for property C10 and is never rebuilt from /repo. This file only adds exports.

import (
	"io"

	"github.com/RoaringBitmap/roaring"
	segment "github.com/blugelabs/bluge_segment_api"
)

func RefNew(results []segment.Document, normCalc func(string, int) float32,
	chunkMode uint32) (segment.Segment, uint64, error) {
	return newWithChunkMode(results, normCalc, chunkMode)
}

func RefMerge(segments []segment.Segment, drops []*roaring.Bitmap, w io.Writer,
	chunkMode uint32, closeCh chan struct{}) ([][]uint64, uint64, error) {
	segmentBases := make([]*Segment, len(segments))
	for i, seg := range segments {
		segmentBases[i] = seg.(*Segment)
	}
	return mergeSegmentBasesWriter(segmentBases, drops, w, chunkMode, closeCh)
}
