//  Copyright (c) 2020 The Bluge Authors.
//
// Licensed under the Apache License, Version 2.0 (the "License");
// you may not use this file except in compliance with the License.
// You may obtain a copy of the License at
//
// 		http://www.apache.org/licenses/LICENSE-2.0
//
// Unless required by applicable law or agreed to in writing, software
// distributed under the License is distributed on an "AS IS" BASIS,
// WITHOUT WARRANTIES OR CONDITIONS OF ANY KIND, either express or implied.
// See the License for the specific language governing permissions and
// limitations under the License.

package refice

type tokenLocation struct {
	FieldVal    string
	StartVal    int
	EndVal      int
	PositionVal int
}

type tokenFreq struct {
	TermVal   []byte
	Locations []*tokenLocation
	frequency int
}

func (tf *tokenFreq) Frequency() int {
	return tf.frequency
}

type tokenFrequencies map[string]*tokenFreq
