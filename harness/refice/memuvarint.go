//  Copyright (c) 2020 The Bluge Authors.
//
// Licensed under the Apache License, Version 2.0 (the "License");
// you may not use this file except in compliance with the License.
// You may obtain a copy of the License at
//
// 		http://www.apache.org/licenses/LICENSE-2.0
//
// Unless required by applicable law or agreed to in writing, software
// distributed under the License is distributed on an "AS IS" BASIS,
// WITHOUT WARRANTIES OR CONDITIONS OF ANY KIND, either express or implied.
// See the License for the specific language governing permissions and
// limitations under the License.

package refice

import "fmt"

// ------------------------------------------------------------

type memUvarintReader struct {
	C int // index of next byte to read from S
	S []byte
}

func newMemUvarintReader(s []byte) *memUvarintReader {
	return &memUvarintReader{S: s}
}

// Len returns the number of unread bytes.
func (r *memUvarintReader) Len() int {
	n := len(r.S) - r.C
	if n < 0 {
		return 0
	}
	return n
}

// why 63?  The original code had an 'i += 1' loop var and
// checked for i > 9 || i == 9 ...; but, we no longer
// check for the i var, but instead check here for s,
// which is incremented by 7.  So, 7*9 == 63.
const sevenTimesNine = 63

// lastByte has the most significant bit set
// indicating there are more bytes in the stream
// any value less than this is a terminal byte
const lastByte = 0x80

// significantBits masks the significant bits
// the highest order bit is used to indicate
// the presence of more data
const significantBits = 0x7f

// ReadUvarint reads an encoded uint64.  The original code this was
// based on is at encoding/binary/ReadUvarint().
func (r *memUvarintReader) ReadUvarint() (uint64, error) {
	var x uint64
	var s uint
	var C = r.C
	var S = r.S

	for {
		b := S[C]
		C++

		if b < lastByte {
			r.C = C

			// why the "extra" >= check?  The normal case is that s <
			// 63, so we check this single >= guard first so that we
			// hit the normal, nil-error return pathway sooner.
			if s >= sevenTimesNine && (s > sevenTimesNine || s == sevenTimesNine && b > 1) {
				return 0, fmt.Errorf("memUvarintReader overflow")
			}

			return x | uint64(b)<<s, nil
		}

		x |= uint64(b&significantBits) << s
		s += 7
	}
}

// SkipUvarint skips ahead one encoded uint64.
func (r *memUvarintReader) SkipUvarint() {
	for {
		b := r.S[r.C]
		r.C++

		if b < lastByte {
			return
		}
	}
}

// SkipBytes skips a count number of bytes.
func (r *memUvarintReader) SkipBytes(count int) {
	r.C += count
}

func (r *memUvarintReader) Reset(s []byte) {
	r.C = 0
	r.S = s
}
