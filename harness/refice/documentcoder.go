package refice

import (
	"bytes"
	"encoding/binary"
	"io"
)

const defaultDocumentChunkSize uint32 = 128

type chunkedDocumentCoder struct {
	chunkSize  uint64
	w          io.Writer
	buf        *bytes.Buffer
	metaBuf    []byte
	n          uint64
	bytes      uint64
	compressed []byte
	offsets    []uint64
}

func newChunkedDocumentCoder(chunkSize uint64, w io.Writer) *chunkedDocumentCoder {
	c := &chunkedDocumentCoder{
		chunkSize: chunkSize,
		w:         w,
	}
	c.buf = bytes.NewBuffer(nil)
	c.metaBuf = make([]byte, binary.MaxVarintLen64)
	c.offsets = append(c.offsets, 0)
	return c
}

func (c *chunkedDocumentCoder) Add(docNum uint64, meta, data []byte) (int, error) {
	var wn, n int
	var err error
	n = binary.PutUvarint(c.metaBuf, uint64(len(meta)))
	if n, err = c.writeToBuf(c.metaBuf[:n]); err != nil {
		return 0, err
	}
	wn += n
	n = binary.PutUvarint(c.metaBuf, uint64(len(data)))
	if n, err = c.writeToBuf(c.metaBuf[:n]); err != nil {
		return 0, err
	}
	wn += n
	if n, err = c.writeToBuf(meta); err != nil {
		return 0, err
	}
	wn += n
	if n, err = c.writeToBuf(data); err != nil {
		return 0, err
	}
	wn += n

	return wn, c.newLine()
}

func (c *chunkedDocumentCoder) writeToBuf(data []byte) (int, error) {
	return c.buf.Write(data)
}

func (c *chunkedDocumentCoder) newLine() error {
	c.n++
	if c.n%c.chunkSize != 0 {
		return nil
	}
	return c.flush()
}

func (c *chunkedDocumentCoder) flush() error {
	if c.buf.Len() > 0 {
		var err error
		c.compressed, err = ZSTDCompress(c.compressed[:cap(c.compressed)], c.buf.Bytes(), ZSTDCompressionLevel)
		if err != nil {
			return err
		}
		n, err := c.w.Write(c.compressed)
		if err != nil {
			return err
		}
		c.bytes += uint64(n)
		c.buf.Reset()
	}
	c.offsets = append(c.offsets, c.bytes)
	return nil
}

func (c *chunkedDocumentCoder) Write() error {
	// flush first
	if err := c.flush(); err != nil {
		return err
	}
	var err error
	var wn, n int
	// write chunk offsets
	for _, offset := range c.offsets {
		n = binary.PutUvarint(c.metaBuf, offset)
		if _, err = c.w.Write(c.metaBuf[:n]); err != nil {
			return err
		}
		wn += n
	}
	// write chunk offset length
	err = binary.Write(c.w, binary.BigEndian, uint32(wn))
	if err != nil {
		return err
	}
	// write chunk num
	err = binary.Write(c.w, binary.BigEndian, uint32(len(c.offsets)))
	if err != nil {
		return err
	}
	return nil
}

func (c *chunkedDocumentCoder) Reset() {
	c.compressed = c.compressed[:0]
	c.offsets = c.offsets[:0]
	c.n = 0
	c.bytes = 0
	c.buf.Reset()
}

// Size returns buffer size of current chunk
func (c *chunkedDocumentCoder) Size() uint64 {
	return uint64(c.buf.Len())
}

// Len returns chunks num
func (c *chunkedDocumentCoder) Len() int {
	return len(c.offsets)
}

// Len returns chunks num
func (c *chunkedDocumentCoder) Offsets() []uint64 {
	m := make([]uint64, 0, len(c.offsets))
	m = append(m, c.offsets...)
	return m
}
