//  Copyright (c) 2020 Couchbase, Inc.
//
// Licensed under the Apache License, Version 2.0 (the "License");
// you may not use this file except in compliance with the License.
// You may obtain a copy of the License at
//
// 		http://www.apache.org/licenses/LICENSE-2.0
//
// Unless required by applicable law or agreed to in writing, software
// distributed under the License is distributed on an "AS IS" BASIS,
// WITHOUT WARRANTIES OR CONDITIONS OF ANY KIND, either express or implied.
// See the License for the specific language governing permissions and
// limitations under the License.

package refice

import (
	"reflect"
)

func init() {
	var ptr *int
	sizeOfPtr = int(reflect.TypeOf(ptr).Size())
	var str string
	sizeOfString = int(reflect.TypeOf(str).Size())
	var u16 uint16
	sizeOfUint16 = int(reflect.TypeOf(u16).Size())
	var u32 uint32
	sizeOfUint32 = int(reflect.TypeOf(u32).Size())
	var u64 uint64
	sizeOfUint64 = int(reflect.TypeOf(u64).Size())
	reflectStaticSizeSegment = int(reflect.TypeOf(Segment{}).Size())
	var md metaData
	reflectStaticSizeMetaData = int(reflect.TypeOf(md).Size())
	var dvi docValueReader
	reflectStaticSizedocValueReader = int(reflect.TypeOf(dvi).Size())
	var pl PostingsList
	reflectStaticSizePostingsList = int(reflect.TypeOf(pl).Size())
	var pi PostingsIterator
	reflectStaticSizePostingsIterator = int(reflect.TypeOf(pi).Size())
	var p Posting
	reflectStaticSizePosting = int(reflect.TypeOf(p).Size())
	var l Location
	reflectStaticSizeLocation = int(reflect.TypeOf(l).Size())
}

var sizeOfPtr int
var sizeOfString int
var sizeOfUint16 int
var sizeOfUint32 int
var sizeOfUint64 int
var reflectStaticSizeSegment int
var reflectStaticSizeMetaData int
var reflectStaticSizedocValueReader int
var reflectStaticSizePostingsList int
var reflectStaticSizePostingsIterator int
var reflectStaticSizePosting int
var reflectStaticSizeLocation int
