//  Copyright (c) 2020 The Bluge Authors.
//
// Licensed under the Apache License, Version 2.0 (the "License");
// you may not use this file except in compliance with the License.
// You may obtain a copy of the License at
//
// 		http://www.apache.org/licenses/LICENSE-2.0
//
// Unless required by applicable law or agreed to in writing, software
// distributed under the License is distributed on an "AS IS" BASIS,
// WITHOUT WARRANTIES OR CONDITIONS OF ANY KIND, either express or implied.
// See the License for the specific language governing permissions and
// limitations under the License.

package refice

import (
	"encoding/binary"
	"fmt"

	"github.com/blevesearch/vellum"
	segment "github.com/blugelabs/bluge_segment_api"
)

// Open returns an impl of a segment
func Load(data *segment.Data) (segment.Segment, error) {
	return load(data)
}

func load(data *segment.Data) (*Segment, error) {
	footer, err := parseFooter(data)
	if err != nil {
		return nil, fmt.Errorf("error parsing footer: %w", err)
	}
	rv := &Segment{
		data:           data.Slice(0, data.Len()-footerLen),
		footer:         footer,
		fieldsMap:      make(map[string]uint16),
		fieldDvReaders: make(map[uint16]*docValueReader),
		fieldFSTs:      make(map[uint16]*vellum.FST),
		fieldDocs:      make(map[uint16]uint64),
		fieldFreqs:     make(map[uint16]uint64),
	}

	// FIXME temporarily map to existing footer fields
	// rv.memCRC = footer.crc
	// rv.chunkMode = footer.chunkMode
	// rv.numDocs = footer.numDocs
	// rv.storedIndexOffset = footer.storedIndexOffset
	// rv.fieldsIndexOffset = footer.fieldsIndexOffset
	// rv.docValueOffset = footer.docValueOffset

	err = rv.loadFields()
	if err != nil {
		return nil, err
	}

	err = rv.loadStoredFieldChunk()
	if err != nil {
		return nil, err
	}

	err = rv.loadDvReaders()
	if err != nil {
		return nil, err
	}

	rv.updateSize()

	return rv, nil
}

const fileAddrWidth = 8

func (s *Segment) loadFields() error {
	// NOTE for now we assume the fields index immediately precedes
	// the footer, and if this changes, need to adjust accordingly (or
	// store explicit length), where s.mem was sliced from s.mm in Open().
	fieldsIndexEnd := uint64(s.data.Len())

	// iterate through fields index
	var fieldID uint64
	for s.footer.fieldsIndexOffset+(fileAddrWidth*fieldID) < fieldsIndexEnd {
		addrData, err := s.data.Read(int(s.footer.fieldsIndexOffset+(fileAddrWidth*fieldID)),
			int(s.footer.fieldsIndexOffset+(fileAddrWidth*fieldID)+fileAddrWidth))
		if err != nil {
			return err
		}
		addr := binary.BigEndian.Uint64(addrData)

		dictLocData, err := s.data.Read(int(addr), int(fieldsIndexEnd))
		if err != nil {
			return err
		}
		dictLoc, read := binary.Uvarint(dictLocData)
		n := uint64(read)
		s.dictLocs = append(s.dictLocs, dictLoc)

		var nameLen uint64
		nameLenData, err := s.data.Read(int(addr+n), int(fieldsIndexEnd))
		if err != nil {
			return err
		}
		nameLen, read = binary.Uvarint(nameLenData)
		n += uint64(read)

		nameData, err := s.data.Read(int(addr+n), int(addr+n+nameLen))
		if err != nil {
			return err
		}
		n += nameLen

		fieldDocData, err := s.data.Read(int(addr+n), int(fieldsIndexEnd))
		if err != nil {
			return err
		}
		fieldDocVal, read := binary.Uvarint(fieldDocData)
		n += uint64(read)

		fieldFreqData, err := s.data.Read(int(addr+n), int(fieldsIndexEnd))
		if err != nil {
			return err
		}
		fieldFreqVal, _ := binary.Uvarint(fieldFreqData)

		name := string(nameData)
		s.fieldsInv = append(s.fieldsInv, name)
		s.fieldsMap[name] = uint16(fieldID + 1)
		s.fieldDocs[uint16(fieldID)] = fieldDocVal
		s.fieldFreqs[uint16(fieldID)] = fieldFreqVal

		fieldID++
	}
	return nil
}

// loadStoredFieldChunk load storedField chunk offsets
func (s *Segment) loadStoredFieldChunk() error {
	// read chunk num
	chunkOffsetPos := int(s.footer.storedIndexOffset - uint64(sizeOfUint32))
	chunkData, err := s.data.Read(chunkOffsetPos, chunkOffsetPos+sizeOfUint32)
	if err != nil {
		return err
	}
	chunkNum := binary.BigEndian.Uint32(chunkData)
	chunkOffsetPos -= sizeOfUint32
	// read chunk offsets length
	chunkData, err = s.data.Read(chunkOffsetPos, chunkOffsetPos+sizeOfUint32)
	if err != nil {
		return err
	}
	chunkOffsetsLen := binary.BigEndian.Uint32(chunkData)
	// read chunk offsets
	chunkOffsetPos -= int(chunkOffsetsLen)
	var offset, read int
	var offsetata []byte
	s.storedFieldChunkOffsets = make([]uint64, chunkNum)
	for i := 0; i < int(chunkNum); i++ {
		offsetata, err = s.data.Read(chunkOffsetPos+offset, chunkOffsetPos+offset+binary.MaxVarintLen64)
		if err != nil {
			return err
		}
		s.storedFieldChunkOffsets[i], read = binary.Uvarint(offsetata)
		offset += read
	}

	return nil
}
