//  Copyright (c) 2020 Couchbase, Inc.
//
// Licensed under the Apache License, Version 2.0 (the "License");
// you may not use this file except in compliance with the License.
// You may obtain a copy of the License at
//
// 		http://www.apache.org/licenses/LICENSE-2.0
//
// Unless required by applicable law or agreed to in writing, software
// distributed under the License is distributed on an "AS IS" BASIS,
// WITHOUT WARRANTIES OR CONDITIONS OF ANY KIND, either express or implied.
// See the License for the specific language governing permissions and
// limitations under the License.

package refice

import (
	"encoding/binary"
)

func (s *Segment) getDocStoredMetaAndUnCompressed(docNum uint64) (meta, data []byte, err error) {
	_, storedOffset, n, metaLen, dataLen, err := s.getDocStoredOffsets(docNum)
	if err != nil {
		return nil, nil, err
	}

	meta = s.storedFieldChunkUncompressed[int(storedOffset+n):int(storedOffset+n+metaLen)]
	data = s.storedFieldChunkUncompressed[int(storedOffset+n+metaLen):int(storedOffset+n+metaLen+dataLen)]
	return meta, data, nil
}

func (s *Segment) getDocStoredOffsets(docNum uint64) (indexOffset, storedOffset, n, metaLen, dataLen uint64, err error) {
	indexOffset, storedOffset, err = s.getDocStoredOffsetsOnly(docNum)
	if err != nil {
		return 0, 0, 0, 0, 0, err
	}

	// document chunk coder
	chunkI := docNum / uint64(defaultDocumentChunkSize)
	chunkOffsetStart := s.storedFieldChunkOffsets[int(chunkI)]
	chunkOffsetEnd := s.storedFieldChunkOffsets[int(chunkI)+1]
	compressed, err := s.data.Read(int(chunkOffsetStart), int(chunkOffsetEnd))
	if err != nil {
		return 0, 0, 0, 0, 0, err
	}
	s.storedFieldChunkUncompressed = s.storedFieldChunkUncompressed[:0]
	s.storedFieldChunkUncompressed, err = ZSTDDecompress(s.storedFieldChunkUncompressed[:cap(s.storedFieldChunkUncompressed)], compressed)
	if err != nil {
		return 0, 0, 0, 0, 0, err
	}

	metaLenData := s.storedFieldChunkUncompressed[int(storedOffset):int(storedOffset+binary.MaxVarintLen64)]
	var read int
	metaLen, read = binary.Uvarint(metaLenData)
	n += uint64(read)

	dataLenData := s.storedFieldChunkUncompressed[int(storedOffset+n):int(storedOffset+n+binary.MaxVarintLen64)]
	dataLen, read = binary.Uvarint(dataLenData)
	n += uint64(read)

	return indexOffset, storedOffset, n, metaLen, dataLen, nil
}

func (s *Segment) getDocStoredOffsetsOnly(docNum uint64) (indexOffset, storedOffset uint64, err error) {
	indexOffset = s.footer.storedIndexOffset + (fileAddrWidth * docNum)
	storedOffsetData, err := s.data.Read(int(indexOffset), int(indexOffset+fileAddrWidth))
	if err != nil {
		return 0, 0, err
	}
	storedOffset = binary.BigEndian.Uint64(storedOffsetData)
	return indexOffset, storedOffset, nil
}
