//  Copyright (c) 2020 The Bluge Authors.
//
// Licensed under the Apache License, Version 2.0 (the "License");
// you may not use this file except in compliance with the License.
// You may obtain a copy of the License at
//
// 		http://www.apache.org/licenses/LICENSE-2.0
//
// Unless required by applicable law or agreed to in writing, software
// distributed under the License is distributed on an "AS IS" BASIS,
// WITHOUT WARRANTIES OR CONDITIONS OF ANY KIND, either express or implied.
// See the License for the specific language governing permissions and
// limitations under the License.

package refice

import (
	segment "github.com/blugelabs/bluge_segment_api"
)

type CollectionStats struct {
	totalDocCount    uint64
	docCount         uint64
	sumTotalTermFreq uint64
}

func (c *CollectionStats) TotalDocumentCount() uint64 {
	return c.totalDocCount
}

func (c *CollectionStats) DocumentCount() uint64 {
	return c.docCount
}

func (c *CollectionStats) SumTotalTermFrequency() uint64 {
	return c.sumTotalTermFreq
}

func (c *CollectionStats) Merge(other segment.CollectionStats) {
	c.totalDocCount += other.TotalDocumentCount()
	c.docCount += other.DocumentCount()
	c.sumTotalTermFreq += other.SumTotalTermFrequency()
}

func (s *Segment) CollectionStats(field string) (segment.CollectionStats, error) {
	var rv = &CollectionStats{}
	fieldIDPlus1 := s.fieldsMap[field]
	if fieldIDPlus1 > 0 {
		rv.totalDocCount = s.footer.numDocs
		rv.docCount = s.fieldDocs[fieldIDPlus1-1]
		rv.sumTotalTermFreq = s.fieldFreqs[fieldIDPlus1-1]
	}
	return rv, nil
}
