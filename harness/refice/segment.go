//  Copyright (c) 2020 Couchbase, Inc.
//
// Licensed under the Apache License, Version 2.0 (the "License");
// you may not use this file except in compliance with the License.
// You may obtain a copy of the License at
//
// 		http://www.apache.org/licenses/LICENSE-2.0
//
// Unless required by applicable law or agreed to in writing, software
// distributed under the License is distributed on an "AS IS" BASIS,
// WITHOUT WARRANTIES OR CONDITIONS OF ANY KIND, either express or implied.
// See the License for the specific language governing permissions and
// limitations under the License.

package refice

import (
	"bufio"
	"bytes"
	"encoding/binary"
	"fmt"
	"io"
	"sync"

	"github.com/RoaringBitmap/roaring"
	"github.com/blevesearch/vellum"
	segment "github.com/blugelabs/bluge_segment_api"
)

const Version uint32 = 2

const Type string = "ice"

type Segment struct {
	data   *segment.Data
	footer *footer

	fieldsMap  map[string]uint16 // fieldName -> fieldID+1
	fieldsInv  []string          // fieldID -> fieldName
	fieldDocs  map[uint16]uint64 // fieldID -> # docs with value in field
	fieldFreqs map[uint16]uint64 // fieldID -> # total tokens in field

	storedFieldChunkOffsets      []uint64 // stored field chunk offset
	storedFieldChunkUncompressed []byte   // for uncompress cache

	dictLocs       []uint64
	fieldDvReaders map[uint16]*docValueReader // naive chunk cache per field
	fieldDvNames   []string                   // field names cached in fieldDvReaders
	size           uint64

	// state loaded dynamically
	m         sync.Mutex
	fieldFSTs map[uint16]*vellum.FST
}

func (s *Segment) WriteTo(w io.Writer, _ chan struct{}) (int64, error) {
	bw := bufio.NewWriter(w)

	n, err := s.data.WriteTo(w)
	if err != nil {
		return n, fmt.Errorf("error persisting segment: %w", err)
	}

	err = persistFooter(s.footer, bw)
	if err != nil {
		return n, fmt.Errorf("error persisting segment footer: %w", err)
	}

	err = bw.Flush()
	if err != nil {
		return n, err
	}

	return n + footerLen, nil
}

func (s *Segment) Type() string {
	return Type
}

// Version returns the file version in the file footer
func (s *Segment) Version() uint32 {
	return s.footer.version
}

func (s *Segment) Size() int {
	return int(s.size)
}

func (s *Segment) updateSize() {
	sizeInBytes := reflectStaticSizeSegment +
		s.data.Size()

	// fieldsMap
	for k := range s.fieldsMap {
		sizeInBytes += (len(k) + sizeOfString) + sizeOfUint16
	}

	// fieldsInv, dictLocs
	for _, entry := range s.fieldsInv {
		sizeInBytes += len(entry) + sizeOfString
	}
	sizeInBytes += len(s.dictLocs) * sizeOfUint64

	// fieldDvReaders
	for _, v := range s.fieldDvReaders {
		sizeInBytes += sizeOfUint16 + sizeOfPtr
		if v != nil {
			sizeInBytes += v.size()
		}
	}

	s.size = uint64(sizeInBytes)
}

// DictionaryReader returns the term dictionary for the specified field
func (s *Segment) Dictionary(field string) (segment.Dictionary, error) {
	dict, err := s.dictionary(field)
	if err == nil && dict == nil {
		return emptyDictionary, nil
	}
	return dict, err
}

func (s *Segment) dictionary(field string) (rv *Dictionary, err error) {
	fieldIDPlus1 := s.fieldsMap[field]
	if fieldIDPlus1 > 0 {
		rv = &Dictionary{
			sb:      s,
			field:   field,
			fieldID: fieldIDPlus1 - 1,
		}

		dictStart := s.dictLocs[rv.fieldID]
		if dictStart > 0 {
			var ok bool
			s.m.Lock()
			if rv.fst, ok = s.fieldFSTs[rv.fieldID]; !ok {
				// read the length of the vellum data
				var vellumLenData []byte
				vellumLenData, err = s.data.Read(int(dictStart), int(dictStart+binary.MaxVarintLen64))
				if err != nil {
					return nil, err
				}
				vellumLen, read := binary.Uvarint(vellumLenData)
				var fstBytes []byte
				fstBytes, err = s.data.Read(int(dictStart+uint64(read)), int(dictStart+uint64(read)+vellumLen))
				if err != nil {
					return nil, err
				}
				rv.fst, err = vellum.Load(fstBytes)
				if err != nil {
					s.m.Unlock()
					return nil, fmt.Errorf("dictionary field %s vellum err: %v", field, err)
				}

				s.fieldFSTs[rv.fieldID] = rv.fst
			}

			s.m.Unlock()
			rv.fstReader, err = rv.fst.Reader()
			if err != nil {
				return nil, fmt.Errorf("dictionary field %s vellum reader err: %v", field, err)
			}
		}
	}

	return rv, nil
}

// visitDocumentCtx holds data structures that are reusable across
// multiple VisitStoredFields() calls to avoid memory allocations
type visitDocumentCtx struct {
	buf    []byte
	reader bytes.Reader
}

var visitDocumentCtxPool = sync.Pool{
	New: func() interface{} {
		reuse := &visitDocumentCtx{}
		return reuse
	},
}

// VisitStoredFields invokes the DocFieldValueVistor for each stored field
// for the specified doc number
func (s *Segment) VisitStoredFields(num uint64, visitor segment.StoredFieldVisitor) error {
	vdc := visitDocumentCtxPool.Get().(*visitDocumentCtx)
	defer visitDocumentCtxPool.Put(vdc)
	return s.visitDocument(vdc, num, visitor)
}

func (s *Segment) visitDocument(vdc *visitDocumentCtx, num uint64,
	visitor segment.StoredFieldVisitor) error {
	// first make sure this is a valid number in this segment
	if num < s.footer.numDocs {
		meta, uncompressed, err := s.getDocStoredMetaAndUnCompressed(num)
		if err != nil {
			return err
		}

		vdc.reader.Reset(meta)

		var keepGoing = true
		for keepGoing {
			field, err := binary.ReadUvarint(&vdc.reader)
			if err == io.EOF {
				break
			}
			if err != nil {
				return err
			}
			offset, err := binary.ReadUvarint(&vdc.reader)
			if err != nil {
				return err
			}
			l, err := binary.ReadUvarint(&vdc.reader)
			if err != nil {
				return err
			}

			value := uncompressed[offset : offset+l]
			keepGoing = visitor(s.fieldsInv[field], value)
		}

		vdc.buf = uncompressed
	}
	return nil
}

// Count returns the number of documents in this segment.
func (s *Segment) Count() uint64 {
	return s.footer.numDocs
}

func (s *Segment) DocsMatchingTerms(terms []segment.Term) (*roaring.Bitmap, error) {
	rv := roaring.New()

	if len(s.fieldsMap) > 0 {
		// we expect the common case to be the same field for all
		// so we optimize for that, but allow it to work if that
		// isn't the case
		var err error
		var lastField string
		var dict *Dictionary
		for i, term := range terms {
			thisField := term.Field()
			if thisField != lastField {
				dict, err = s.dictionary(term.Field())
				if err != nil {
					return nil, err
				}
				lastField = thisField
			}
			term := terms[i]
			postingsList := emptyPostingsList
			postingsList, err = dict.postingsList(term.Term(), nil, postingsList)
			if err != nil {
				return nil, err
			}
			postingsList.OrInto(rv)
		}
	}
	return rv, nil
}

// Fields returns the field names used in this segment
func (s *Segment) Fields() []string {
	return s.fieldsInv
}

// CRC returns the CRC value stored in the file footer
func (s *Segment) CRC() uint32 {
	return s.footer.crc
}

// ChunkFactor returns the chunk factor in the file footer
func (s *Segment) ChunkMode() uint32 {
	return s.footer.chunkMode
}

// FieldsIndexOffset returns the fields index offset in the file footer
func (s *Segment) FieldsIndexOffset() uint64 {
	return s.footer.fieldsIndexOffset
}

// StoredIndexOffset returns the stored value index offset in the file footer
func (s *Segment) StoredIndexOffset() uint64 {
	return s.footer.storedIndexOffset
}

// DocValueOffset returns the docValue offset in the file footer
func (s *Segment) DocValueOffset() uint64 {
	return s.footer.docValueOffset
}

// NumDocs returns the number of documents in the file footer
func (s *Segment) NumDocs() uint64 {
	return s.footer.numDocs
}

func (s *Segment) loadDvReaders() error {
	if s.footer.docValueOffset == fieldNotUninverted || s.footer.numDocs == 0 {
		return nil
	}

	var read uint64
	for fieldID, field := range s.fieldsInv {
		var fieldLocStart, fieldLocEnd uint64
		var n int
		fieldLocStartData, err := s.data.Read(int(s.footer.docValueOffset+read), int(s.footer.docValueOffset+read+binary.MaxVarintLen64))
		if err != nil {
			return err
		}
		fieldLocStart, n = binary.Uvarint(fieldLocStartData)
		if n <= 0 {
			return fmt.Errorf("loadDvReaders: failed to read the docvalue offset start for field %d", fieldID)
		}
		read += uint64(n)
		fieldLocEndData, err := s.data.Read(int(s.footer.docValueOffset+read), int(s.footer.docValueOffset+read+binary.MaxVarintLen64))
		if err != nil {
			return err
		}
		fieldLocEnd, n = binary.Uvarint(fieldLocEndData)
		if n <= 0 {
			return fmt.Errorf("loadDvReaders: failed to read the docvalue offset end for field %d", fieldID)
		}
		read += uint64(n)

		fieldDvReader, err := s.loadFieldDocValueReader(field, fieldLocStart, fieldLocEnd)
		if err != nil {
			return err
		}
		if fieldDvReader != nil {
			s.fieldDvReaders[uint16(fieldID)] = fieldDvReader
			s.fieldDvNames = append(s.fieldDvNames, field)
		}
	}

	return nil
}
