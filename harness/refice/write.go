//  Copyright (c) 2020 Couchbase, Inc.
//
// Licensed under the Apache License, Version 2.0 (the "License");
// you may not use this file except in compliance with the License.
// You may obtain a copy of the License at
//
// 		http://www.apache.org/licenses/LICENSE-2.0
//
// Unless required by applicable law or agreed to in writing, software
// distributed under the License is distributed on an "AS IS" BASIS,
// WITHOUT WARRANTIES OR CONDITIONS OF ANY KIND, either express or implied.
// See the License for the specific language governing permissions and
// limitations under the License.

package refice

import (
	"encoding/binary"
	"io"
	"math"

	"github.com/RoaringBitmap/roaring"
)

const fieldNotUninverted = math.MaxUint64

type varintEncoder func(uint64) (int, error)

func encodeStoredFieldValues(fieldID int,
	storedFieldValues [][]byte,
	curr int, metaEncode varintEncoder, data []byte) (
	newCurr int, newData []byte, err error) {
	for i := 0; i < len(storedFieldValues); i++ {
		// encode field
		_, err := metaEncode(uint64(fieldID))
		if err != nil {
			return 0, nil, err
		}
		// encode start offset
		_, err = metaEncode(uint64(curr))
		if err != nil {
			return 0, nil, err
		}
		// end len
		_, err = metaEncode(uint64(len(storedFieldValues[i])))
		if err != nil {
			return 0, nil, err
		}

		data = append(data, storedFieldValues[i]...)
		curr += len(storedFieldValues[i])
	}

	return curr, data, nil
}

func writePostings(postings *roaring.Bitmap, tfEncoder, locEncoder *chunkedIntCoder,
	use1HitEncoding func(uint64) (bool, uint64, uint64),
	w *countHashWriter, bufMaxVarintLen64 []byte) (
	offset uint64, err error) {
	termCardinality := postings.GetCardinality()
	if termCardinality <= 0 {
		return 0, nil
	}

	if use1HitEncoding != nil {
		encodeAs1Hit, docNum1Hit, normBits1Hit := use1HitEncoding(termCardinality)
		if encodeAs1Hit {
			return fSTValEncode1Hit(docNum1Hit, normBits1Hit), nil
		}
	}

	var tfOffset uint64
	tfOffset, err = tfEncoder.writeAt(w)
	if err != nil {
		return 0, err
	}

	var locOffset uint64
	locOffset, err = locEncoder.writeAt(w)
	if err != nil {
		return 0, err
	}

	postingsOffset := uint64(w.Count())

	n := binary.PutUvarint(bufMaxVarintLen64, tfOffset)
	_, err = w.Write(bufMaxVarintLen64[:n])
	if err != nil {
		return 0, err
	}

	if locOffset > 0 && tfOffset > 0 {
		n = binary.PutUvarint(bufMaxVarintLen64, locOffset-tfOffset)
	} else {
		n = binary.PutUvarint(bufMaxVarintLen64, locOffset)
	}
	_, err = w.Write(bufMaxVarintLen64[:n])
	if err != nil {
		return 0, err
	}

	_, err = writeRoaringWithLen(postings, w, bufMaxVarintLen64)
	if err != nil {
		return 0, err
	}

	return postingsOffset, nil
}

// returns the total # of bytes needed to encode the given uint64's
// into binary.PutUVarint() encoding
func totalUvarintBytes(a, b, c, d uint64) (n int) {
	n = numUvarintBytes(a)
	n += numUvarintBytes(b)
	n += numUvarintBytes(c)
	n += numUvarintBytes(d)
	return n
}

// returns # of bytes needed to encode x in binary.PutUvarint() encoding
func numUvarintBytes(x uint64) (n int) {
	for x >= 0x80 {
		x >>= 7
		n++
	}
	return n + 1
}

// writes out the length of the roaring bitmap in bytes as varint
// then writes out the roaring bitmap itself
func writeRoaringWithLen(r *roaring.Bitmap, w io.Writer,
	reuseBufVarint []byte) (int, error) {
	r.RunOptimize()
	buf, err := r.ToBytes()
	if err != nil {
		return 0, err
	}

	var tw int

	// write out the length
	n := binary.PutUvarint(reuseBufVarint, uint64(len(buf)))
	nw, err := w.Write(reuseBufVarint[:n])
	tw += nw
	if err != nil {
		return tw, err
	}

	// write out the roaring bytes
	nw, err = w.Write(buf)
	tw += nw
	if err != nil {
		return tw, err
	}

	return tw, nil
}

func persistFields(fieldsInv []string, fieldDocs, fieldFreqs map[uint16]uint64,
	w *countHashWriter, dictLocs []uint64) (uint64, error) {
	var rv uint64
	var fieldsOffsets []uint64

	for fieldID, fieldName := range fieldsInv {
		// record start of this field
		fieldsOffsets = append(fieldsOffsets, uint64(w.Count()))

		// write out the dict location and field name length
		err := writeUvarints(w, dictLocs[fieldID], uint64(len(fieldName)))
		if err != nil {
			return 0, err
		}

		// write out the field name
		_, err = w.Write([]byte(fieldName))
		if err != nil {
			return 0, err
		}

		// write out the number of docs using this field
		// and the number of total tokens
		err = writeUvarints(w, fieldDocs[uint16(fieldID)], fieldFreqs[uint16(fieldID)])
		if err != nil {
			return 0, err
		}
	}

	// now write out the fields index
	rv = uint64(w.Count())
	for fieldID := range fieldsInv {
		err := binary.Write(w, binary.BigEndian, fieldsOffsets[fieldID])
		if err != nil {
			return 0, err
		}
	}

	return rv, nil
}

func persistFooter(footer *footer, writerIn io.Writer) error {
	w := newCountHashWriter(writerIn)
	w.crc = footer.crc

	// write out the number of docs
	err := binary.Write(w, binary.BigEndian, footer.numDocs)
	if err != nil {
		return err
	}
	// write out the stored field index location:
	err = binary.Write(w, binary.BigEndian, footer.storedIndexOffset)
	if err != nil {
		return err
	}
	// write out the field index location
	err = binary.Write(w, binary.BigEndian, footer.fieldsIndexOffset)
	if err != nil {
		return err
	}
	// write out the fieldDocValue location
	err = binary.Write(w, binary.BigEndian, footer.docValueOffset)
	if err != nil {
		return err
	}
	// write out 32-bit chunk factor
	err = binary.Write(w, binary.BigEndian, footer.chunkMode)
	if err != nil {
		return err
	}
	// write out 32-bit version
	err = binary.Write(w, binary.BigEndian, Version)
	if err != nil {
		return err
	}
	// write out CRC-32 of everything upto but not including this CRC
	err = binary.Write(w, binary.BigEndian, w.crc)
	if err != nil {
		return err
	}
	return nil
}

func writeUvarints(w io.Writer, vals ...uint64) (err error) {
	buf := make([]byte, binary.MaxVarintLen64)
	for _, val := range vals {
		n := binary.PutUvarint(buf, val)
		_, err = w.Write(buf[:n])
		if err != nil {
			return err
		}
	}
	return err
}
