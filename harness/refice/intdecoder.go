//  Copyright (c) 2020 Couchbase, Inc.
//
// Licensed under the Apache License, Version 2.0 (the "License");
// you may not use this file except in compliance with the License.
// You may obtain a copy of the License at
//
// 		http://www.apache.org/licenses/LICENSE-2.0
//
// Unless required by applicable law or agreed to in writing, software
// distributed under the License is distributed on an "AS IS" BASIS,
// WITHOUT WARRANTIES OR CONDITIONS OF ANY KIND, either express or implied.
// See the License for the specific language governing permissions and
// limitations under the License.

package refice

import (
	"encoding/binary"
	"fmt"

	segment "github.com/blugelabs/bluge_segment_api"
)

type chunkedIntDecoder struct {
	startOffset     uint64
	dataStartOffset uint64
	chunkOffsets    []uint64
	curChunkBytes   []byte
	uncompressed    []byte // temp buf for decompression
	data            *segment.Data
	r               *memUvarintReader
}

func newChunkedIntDecoder(data *segment.Data, offset uint64, rv *chunkedIntDecoder) (*chunkedIntDecoder, error) {
	if rv == nil {
		rv = &chunkedIntDecoder{startOffset: offset, data: data}
	} else {
		rv.startOffset = offset
		rv.data = data
	}
	var n, numChunks uint64
	var read int
	if offset == termNotEncoded {
		numChunks = 0
	} else {
		numChunksData, err := data.Read(int(offset+n), int(offset+n+binary.MaxVarintLen64))
		if err != nil {
			return nil, err
		}
		numChunks, read = binary.Uvarint(numChunksData)
	}

	n += uint64(read)
	if cap(rv.chunkOffsets) >= int(numChunks) {
		rv.chunkOffsets = rv.chunkOffsets[:int(numChunks)]
	} else {
		rv.chunkOffsets = make([]uint64, int(numChunks))
	}
	for i := 0; i < int(numChunks); i++ {
		chunkOffsetData, err := data.Read(int(offset+n), int(offset+n+binary.MaxVarintLen64))
		if err != nil {
			return nil, err
		}
		rv.chunkOffsets[i], read = binary.Uvarint(chunkOffsetData)
		n += uint64(read)
	}
	rv.dataStartOffset = offset + n
	return rv, nil
}

func (d *chunkedIntDecoder) loadChunk(chunk int) error {
	if d.startOffset == termNotEncoded {
		d.r = newMemUvarintReader([]byte(nil))
		return nil
	}

	if chunk >= len(d.chunkOffsets) {
		return fmt.Errorf("tried to load freq chunk that doesn't exist %d/(%d)",
			chunk, len(d.chunkOffsets))
	}

	end, start := d.dataStartOffset, d.dataStartOffset
	s, e := readChunkBoundary(chunk, d.chunkOffsets)
	start += s
	end += e
	curChunkBytesData, err := d.data.Read(int(start), int(end))
	if err != nil {
		return err
	}
	d.uncompressed, err = ZSTDDecompress(d.uncompressed[:cap(d.uncompressed)], curChunkBytesData)
	if err != nil {
		return err
	}
	d.curChunkBytes = d.uncompressed
	if d.r == nil {
		d.r = newMemUvarintReader(d.curChunkBytes)
	} else {
		d.r.Reset(d.curChunkBytes)
	}

	return nil
}

func (d *chunkedIntDecoder) reset() {
	d.startOffset = 0
	d.dataStartOffset = 0
	d.chunkOffsets = d.chunkOffsets[:0]
	d.curChunkBytes = d.curChunkBytes[:0]
	d.uncompressed = d.uncompressed[:0]

	// FIXME what?
	// d.data = d.data[:0]
	d.data = nil
	if d.r != nil {
		d.r.Reset([]byte(nil))
	}
}

func (d *chunkedIntDecoder) isNil() bool {
	return d.curChunkBytes == nil || len(d.curChunkBytes) == 0
}

func (d *chunkedIntDecoder) readUvarint() (uint64, error) {
	return d.r.ReadUvarint()
}

func (d *chunkedIntDecoder) SkipUvarint() {
	d.r.SkipUvarint()
}

func (d *chunkedIntDecoder) SkipBytes(count int) {
	d.r.SkipBytes(count)
}

func (d *chunkedIntDecoder) Len() int {
	return d.r.Len()
}
