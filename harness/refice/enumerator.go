//  Copyright (c) 2020 Couchbase, Inc.
//
// Licensed under the Apache License, Version 2.0 (the "License");
// you may not use this file except in compliance with the License.
// You may obtain a copy of the License at
//
// 		http://www.apache.org/licenses/LICENSE-2.0
//
// Unless required by applicable law or agreed to in writing, software
// distributed under the License is distributed on an "AS IS" BASIS,
// WITHOUT WARRANTIES OR CONDITIONS OF ANY KIND, either express or implied.
// See the License for the specific language governing permissions and
// limitations under the License.

package refice

import (
	"bytes"

	"github.com/blevesearch/vellum"
)

// enumerator provides an ordered traversal of multiple vellum
// iterators.  Like JOIN of iterators, the enumerator produces a
// sequence of (key, iteratorIndex, value) tuples, sorted by key ASC,
// then iteratorIndex ASC, where the same key might be seen or
// repeated across multiple child iterators.
type enumerator struct {
	itrs   []vellum.Iterator
	currKs [][]byte
	currVs []uint64

	lowK    []byte
	lowIdxs []int
	lowCurr int
}

// newEnumerator returns a new enumerator over the vellum Iterators
func newEnumerator(itrs []vellum.Iterator) (*enumerator, error) {
	rv := &enumerator{
		itrs:    itrs,
		currKs:  make([][]byte, len(itrs)),
		currVs:  make([]uint64, len(itrs)),
		lowIdxs: make([]int, 0, len(itrs)),
	}
	for i, itr := range rv.itrs {
		rv.currKs[i], rv.currVs[i] = itr.Current()
	}
	rv.updateMatches(false)
	if rv.lowK == nil && len(rv.lowIdxs) == 0 {
		return rv, vellum.ErrIteratorDone
	}
	return rv, nil
}

// updateMatches maintains the low key matches based on the currKs
func (m *enumerator) updateMatches(skipEmptyKey bool) {
	m.lowK = nil
	m.lowIdxs = m.lowIdxs[:0]
	m.lowCurr = 0

	for i, key := range m.currKs {
		if (key == nil && m.currVs[i] == 0) || // in case of empty iterator
			(len(key) == 0 && skipEmptyKey) { // skip empty keys
			continue
		}

		cmp := bytes.Compare(key, m.lowK)
		if cmp < 0 || len(m.lowIdxs) == 0 {
			// reached a new low
			m.lowK = key
			m.lowIdxs = m.lowIdxs[:0]
			m.lowIdxs = append(m.lowIdxs, i)
		} else if cmp == 0 {
			m.lowIdxs = append(m.lowIdxs, i)
		}
	}
}

// Current returns the enumerator's current key, iterator-index, and
// value.  If the enumerator is not pointing at a valid value (because
// Next returned an error previously), Current will return nil,0,0.
func (m *enumerator) Current() (key []byte, index int, val uint64) {
	if m.lowCurr < len(m.lowIdxs) {
		index = m.lowIdxs[m.lowCurr]
		val = m.currVs[index]
	}
	return m.lowK, index, val
}

// GetLowIdxsAndValues will return all of the iterator indices
// which point to the current key, and their corresponding
// values.  This can be used by advanced caller which may need
// to peek into these other sets of data before processing.
func (m *enumerator) GetLowIdxsAndValues() (lowIdxs []int, values []uint64) {
	values = make([]uint64, 0, len(m.lowIdxs))
	for _, idx := range m.lowIdxs {
		values = append(values, m.currVs[idx])
	}
	return m.lowIdxs, values
}

// Next advances the enumerator to the next key/iterator/value result,
// else vellum.ErrIteratorDone is returned.
func (m *enumerator) Next() error {
	m.lowCurr++
	if m.lowCurr >= len(m.lowIdxs) {
		// move all the current low iterators forwards
		for _, vi := range m.lowIdxs {
			err := m.itrs[vi].Next()
			if err != nil && err != vellum.ErrIteratorDone {
				return err
			}
			m.currKs[vi], m.currVs[vi] = m.itrs[vi].Current()
		}
		// can skip any empty keys encountered at this point
		m.updateMatches(true)
	}
	if m.lowK == nil && len(m.lowIdxs) == 0 {
		return vellum.ErrIteratorDone
	}
	return nil
}

// Close all the underlying Iterators.  The first error, if any, will
// be returned.
func (m *enumerator) Close() error {
	var rv error
	for _, itr := range m.itrs {
		err := itr.Close()
		if rv == nil {
			rv = err
		}
	}
	return rv
}
