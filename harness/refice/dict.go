//  Copyright (c) 2020 Couchbase, Inc.
//
// Licensed under the Apache License, Version 2.0 (the "License");
// you may not use this file except in compliance with the License.
// You may obtain a copy of the License at
//
// 		http://www.apache.org/licenses/LICENSE-2.0
//
// Unless required by applicable law or agreed to in writing, software
// distributed under the License is distributed on an "AS IS" BASIS,
// WITHOUT WARRANTIES OR CONDITIONS OF ANY KIND, either express or implied.
// See the License for the specific language governing permissions and
// limitations under the License.

package refice

import (
	"fmt"

	"github.com/RoaringBitmap/roaring"
	"github.com/blevesearch/vellum"
	segment "github.com/blugelabs/bluge_segment_api"
)

// Dictionary is the representation of the term dictionary
type Dictionary struct {
	sb        *Segment
	field     string
	fieldID   uint16
	fst       *vellum.FST
	fstReader *vellum.Reader
}

// represents an immutable, empty postings list
var emptyDictionary = &Dictionary{}

// PostingsList returns the postings list for the specified term
func (d *Dictionary) PostingsList(term []byte, except *roaring.Bitmap,
	prealloc segment.PostingsList) (segment.PostingsList, error) {
	var preallocPL *PostingsList
	pl, ok := prealloc.(*PostingsList)
	if ok && pl != nil {
		preallocPL = pl
	}
	return d.postingsList(term, except, preallocPL)
}

func (d *Dictionary) postingsList(term []byte, except *roaring.Bitmap, rv *PostingsList) (*PostingsList, error) {
	if d.fstReader == nil {
		if rv == nil || rv == emptyPostingsList {
			return emptyPostingsList, nil
		}
		return d.postingsListInit(rv, except), nil
	}

	postingsOffset, exists, err := d.fstReader.Get(term)
	if err != nil {
		return nil, fmt.Errorf("vellum err: %v", err)
	}
	if !exists {
		if rv == nil || rv == emptyPostingsList {
			return emptyPostingsList, nil
		}
		return d.postingsListInit(rv, except), nil
	}

	return d.postingsListFromOffset(postingsOffset, except, rv)
}

func (d *Dictionary) postingsListFromOffset(postingsOffset uint64, except *roaring.Bitmap, rv *PostingsList) (*PostingsList, error) {
	rv = d.postingsListInit(rv, except)

	err := rv.read(postingsOffset, d)
	if err != nil {
		return nil, err
	}

	return rv, nil
}

func (d *Dictionary) postingsListInit(rv *PostingsList, except *roaring.Bitmap) *PostingsList {
	if rv == nil || rv == emptyPostingsList {
		rv = &PostingsList{}
	} else {
		postings := rv.postings
		if postings != nil {
			postings.Clear()
		}

		*rv = PostingsList{} // clear the struct

		rv.postings = postings
	}
	rv.sb = d.sb
	rv.except = except
	return rv
}

func (d *Dictionary) Contains(key []byte) (bool, error) {
	if d.fst != nil {
		return d.fst.Contains(key)
	}
	return false, nil
}

func (d *Dictionary) Close() error {
	return nil
}

// Iterator returns an iterator which only visits terms
// having the the vellum automaton and start/end key range
func (d *Dictionary) Iterator(a segment.Automaton,
	startKeyInclusive, endKeyExclusive []byte) segment.DictionaryIterator {
	if d.fst != nil {
		rv := &DictionaryIterator{
			d: d,
		}

		itr, err := d.fst.Search(a, startKeyInclusive, endKeyExclusive)
		if err == nil {
			rv.itr = itr
		} else if err != vellum.ErrIteratorDone {
			rv.err = err
		}

		return rv
	}
	return emptyDictionaryIterator
}

// represents an immutable, empty dictionary iterator
var emptyDictionaryIterator = &DictionaryIterator{}

// DictionaryIterator is an iterator for term dictionary
type DictionaryIterator struct {
	d         *Dictionary
	itr       vellum.Iterator
	err       error
	tmp       PostingsList
	entry     DictEntry
	omitCount bool
}

// Next returns the next entry in the dictionary
func (i *DictionaryIterator) Next() (segment.DictionaryEntry, error) {
	if i.err != nil && i.err != vellum.ErrIteratorDone {
		return nil, i.err
	} else if i.itr == nil || i.err == vellum.ErrIteratorDone {
		return nil, nil
	}
	term, postingsOffset := i.itr.Current()
	i.entry.term = string(term)
	if !i.omitCount {
		i.err = i.tmp.read(postingsOffset, i.d)
		if i.err != nil {
			return nil, i.err
		}
		i.entry.count = i.tmp.Count()
	}
	i.err = i.itr.Next()
	return &i.entry, nil
}

func (i *DictionaryIterator) Close() error {
	return nil
}

type DictEntry struct {
	term  string
	count uint64
}

func (d *DictEntry) Term() string {
	return d.term
}

func (d *DictEntry) Count() uint64 {
	return d.count
}
