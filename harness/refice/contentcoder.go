//  Copyright (c) 2020 Couchbase, Inc.
//
// Licensed under the Apache License, Version 2.0 (the "License");
// you may not use this file except in compliance with the License.
// You may obtain a copy of the License at
//
// 		http://www.apache.org/licenses/LICENSE-2.0
//
// Unless required by applicable law or agreed to in writing, software
// distributed under the License is distributed on an "AS IS" BASIS,
// WITHOUT WARRANTIES OR CONDITIONS OF ANY KIND, either express or implied.
// See the License for the specific language governing permissions and
// limitations under the License.

package refice

import (
	"bytes"
	"encoding/binary"
	"io"
)

var termSeparator byte = 0xff
var termSeparatorSplitSlice = []byte{termSeparator}

type chunkedContentCoder struct {
	final     []byte
	chunkSize uint64
	currChunk uint64
	chunkLens []uint64

	w                io.Writer
	progressiveWrite bool

	chunkMetaBuf bytes.Buffer
	chunkBuf     bytes.Buffer

	chunkMeta []metaData

	compressed []byte // temp buf for compression
}

// metaData represents the data information inside a
// chunk.
type metaData struct {
	DocNum      uint64 // docNum of the data inside the chunk
	DocDvOffset uint64 // offset of data inside the chunk for the given docid
}

// newChunkedContentCoder returns a new chunk content coder which
// packs data into chunks based on the provided chunkSize
func newChunkedContentCoder(chunkSize, maxDocNum uint64,
	w io.Writer, progressiveWrite bool) *chunkedContentCoder {
	total := maxDocNum/chunkSize + 1
	rv := &chunkedContentCoder{
		chunkSize:        chunkSize,
		chunkLens:        make([]uint64, total),
		chunkMeta:        make([]metaData, 0, total),
		w:                w,
		progressiveWrite: progressiveWrite,
	}

	return rv
}

// Reset lets you reuse this chunked content coder. Buffers are reset
// and re used. You cannot change the chunk size.
func (c *chunkedContentCoder) Reset() {
	c.currChunk = 0
	c.final = c.final[:0]
	c.chunkBuf.Reset()
	c.chunkMetaBuf.Reset()
	for i := range c.chunkLens {
		c.chunkLens[i] = 0
	}
	c.chunkMeta = c.chunkMeta[:0]
}

func (c *chunkedContentCoder) SetChunkSize(chunkSize, maxDocNum uint64) {
	total := int(maxDocNum/chunkSize + 1)
	c.chunkSize = chunkSize
	if cap(c.chunkLens) < total {
		c.chunkLens = make([]uint64, total)
	} else {
		c.chunkLens = c.chunkLens[:total]
	}
	if cap(c.chunkMeta) < total {
		c.chunkMeta = make([]metaData, 0, total)
	}
}

// Close indicates you are done calling Add() this allows
// the final chunk to be encoded.
func (c *chunkedContentCoder) Close() error {
	return c.flushContents()
}

func (c *chunkedContentCoder) flushContents() error {
	// flush the contents, with meta information at first
	buf := make([]byte, binary.MaxVarintLen64)
	n := binary.PutUvarint(buf, uint64(len(c.chunkMeta)))
	_, err := c.chunkMetaBuf.Write(buf[:n])
	if err != nil {
		return err
	}

	// write out the metaData slice
	diffDocNum := uint64(0)
	diffDvOffset := uint64(0)
	for _, meta := range c.chunkMeta {
		err = writeUvarints(&c.chunkMetaBuf, meta.DocNum-diffDocNum, meta.DocDvOffset-diffDvOffset)
		if err != nil {
			return err
		}
		diffDocNum = meta.DocNum
		diffDvOffset = meta.DocDvOffset
	}

	// write the metadata to final data
	metaData := c.chunkMetaBuf.Bytes()
	c.final = append(c.final, c.chunkMetaBuf.Bytes()...)
	// write the compressed data to the final data
	c.compressed, err = ZSTDCompress(c.compressed[:cap(c.compressed)], c.chunkBuf.Bytes(), ZSTDCompressionLevel)
	if err != nil {
		return err
	}
	c.final = append(c.final, c.compressed...)

	c.chunkLens[c.currChunk] = uint64(len(c.compressed) + len(metaData))

	if c.progressiveWrite {
		_, err := c.w.Write(c.final)
		if err != nil {
			return err
		}
		c.final = c.final[:0]
	}

	return nil
}

// Add encodes the provided byte slice into the correct chunk for the provided
// doc num.  You MUST call Add() with increasing docNums.
func (c *chunkedContentCoder) Add(docNum uint64, vals []byte) error {
	chunk := docNum / c.chunkSize
	if chunk != c.currChunk {
		// flush out the previous chunk details
		err := c.flushContents()
		if err != nil {
			return err
		}
		// clearing the chunk specific meta for next chunk
		c.chunkBuf.Reset()
		c.chunkMetaBuf.Reset()
		c.chunkMeta = c.chunkMeta[:0]
		c.currChunk = chunk
	}

	// get the starting offset for this doc
	dvOffset := c.chunkBuf.Len()
	dvSize, err := c.chunkBuf.Write(vals)
	if err != nil {
		return err
	}

	c.chunkMeta = append(c.chunkMeta, metaData{
		DocNum:      docNum,
		DocDvOffset: uint64(dvOffset + dvSize),
	})
	return nil
}

// Write commits all the encoded chunked contents to the provided writer.
//
// | ..... data ..... | chunk offsets (varints)
// | position of chunk offsets (uint64) | number of offsets (uint64) |
func (c *chunkedContentCoder) Write() (int, error) {
	var tw int

	if c.final != nil {
		// write out the data section first
		nw, err := c.w.Write(c.final)
		tw += nw
		if err != nil {
			return tw, err
		}
	}

	chunkOffsetsStart := uint64(tw)

	if cap(c.final) < binary.MaxVarintLen64 {
		c.final = make([]byte, binary.MaxVarintLen64)
	} else {
		c.final = c.final[0:binary.MaxVarintLen64]
	}
	chunkOffsets := modifyLengthsToEndOffsets(c.chunkLens)
	// write out the chunk offsets
	for _, chunkOffset := range chunkOffsets {
		n := binary.PutUvarint(c.final, chunkOffset)
		nw, err := c.w.Write(c.final[:n])
		tw += nw
		if err != nil {
			return tw, err
		}
	}

	chunkOffsetsLen := uint64(tw) - chunkOffsetsStart

	c.final = c.final[0:8]
	// write out the length of chunk offsets
	binary.BigEndian.PutUint64(c.final, chunkOffsetsLen)
	nw, err := c.w.Write(c.final)
	tw += nw
	if err != nil {
		return tw, err
	}

	// write out the number of chunks
	binary.BigEndian.PutUint64(c.final, uint64(len(c.chunkLens)))
	nw, err = c.w.Write(c.final)
	tw += nw
	if err != nil {
		return tw, err
	}

	c.final = c.final[:0]

	return tw, nil
}

// readDocValueBoundary elicits the start, end offsets from a
// metaData header slice
func readDocValueBoundary(chunk int, metaHeaders []metaData) (start, end uint64) {
	if chunk > 0 {
		start = metaHeaders[chunk-1].DocDvOffset
	}
	return start, metaHeaders[chunk].DocDvOffset
}
