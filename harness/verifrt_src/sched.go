package verifrt

import (
	"fmt"
	"reflect"
	"sort"
	"strings"
	"sync"
)

// ---- cooperative scheduler + preemption-bounded DFS + happens-before race monitor ----
//
// Logical threads are goroutines parked on channels; exactly one runs at a time. Step and the
// sync shims hand control to the scheduler. All blocking is modelled (a thread waiting for a held
// mutex is *disabled*), so "no enabled thread" is a deadlock, reported deterministically.

type Point struct {
	Enabled        []int // canonical order: the running thread first if still enabled, then ascending ids
	Chosen         int   // index into Enabled
	RunningEnabled bool
}

type Race struct {
	Key          string // "<type>.<field>"
	SiteA, SiteB string
	TidA, TidB   int
	WriteA       bool
	WriteB       bool
}

func (r Race) String() string {
	k := func(w bool) string {
		if w {
			return "write"
		}
		return "read"
	}
	return fmt.Sprintf("%s: T%d %s @%s  ||  T%d %s @%s", r.Key, r.TidA, k(r.WriteA), r.SiteA, r.TidB, k(r.WriteB), r.SiteB)
}

type thread struct {
	id        int
	wake      chan struct{}
	done      bool
	started   bool
	vc        []int
	site      string
	blockedOn interface{} // *sync.Mutex or *sync.Once the thread waits for
	panicVal  interface{}
	panicSite string
}

type accKey struct {
	ptr   uintptr
	field string
}

type epoch struct {
	tid, clock int
	site       string
	sched      bool
}

type accHist struct {
	base      interface{} // keeps the object alive: its address cannot be reused within this execution
	lastWrite *epoch
	reads     map[int]epoch
	typ       string
}

type ownerRec struct {
	tid   int
	clock int         // the owner's own clock component at its last access
	base  interface{} // keeps the object alive (no address reuse within an execution)
	site  string
}

type lockState struct {
	owner int // -1 free
	vc    []int
}

type onceState struct {
	done   bool
	runner int // -1 none
	vc     []int
}

type pooled struct {
	x  interface{}
	vc []int
}

type abortT struct{}

type Sched struct {
	ths    []*thread
	cur    int
	back   chan struct{}
	prefix []int
	Points []Point
	Trace  []string

	locks map[*sync.Mutex]*lockState
	onces map[*sync.Once]*onceState
	pools map[*sync.Pool][]pooled

	hist     map[accKey]*accHist
	Races    []Race
	Deadlock string
	aborting bool

	cfg *Config
	// sites at which a cross-thread access happened at a non-scheduling step (fixpoint input)
	NewHot map[string]bool
	// "<type>.<field>" keys of shared-typed objects / globals written under the scheduler that
	// were not yet in Config.Written (fixpoint input)
	NewWritten map[string]bool
	// types of supposedly thread-local objects that were touched by a second thread (fixpoint input)
	NewPromoted map[string]bool
	owner       map[uintptr]ownerRec
	// PreemptedConflict: some preemption separated two steps touching the same (base, field)
	Steps int
	// Unowned: this execution belongs to another worker's partition (set by Explore for the root)
	Unowned bool
}

// Config controls which steps are scheduling points.
type Config struct {
	// AlwaysShared lists reflect type strings (e.g. "*ice.Segment") whose field accesses are
	// always scheduling points. Globals (nil base) always are.
	AlwaysShared map[string]bool
	HotSites     map[string]bool
	// Written: "<type>.<field>" keys (shared types and globals) that some thread writes. A step
	// is a scheduling point if it writes such a location or reads one that is in Written; reads of
	// locations nobody writes commute with everything and need no scheduling point.
	Written map[string]bool
	// Promoted: types outside AlwaysShared one of whose objects was seen from two threads; from then
	// on every access to objects of that type is recorded by the happens-before monitor (scheduling
	// points are added per site through HotSites).
	Promoted map[string]bool
	// EverySite makes every instrumented step a scheduling point.
	EverySite bool
	// PoolFresh: when set, pool Get ignores pooled objects (choice owned by the caller).
	PoolFresh bool
}

var Active *Sched

func (s *Sched) me() *thread { return s.ths[s.cur] }

// yield hands control to the scheduler and returns when this thread is chosen again.
func (s *Sched) yield(t *thread, site string) {
	t.site = site
	s.back <- struct{}{}
	<-t.wake
	if s.aborting {
		panic(abortT{})
	}
}

var typeNames = map[reflect.Type]string{}

// typeName caches reflect.Type.String (it allocates; accesses are recorded millions of times).
func typeName(t reflect.Type) string {
	if s, ok := typeNames[t]; ok {
		return s
	}
	s := t.String()
	typeNames[t] = s
	return s
}

type prefixedType struct {
	prefix string
	t      reflect.Type
}

var prefixedNames = map[prefixedType]string{}

func typeNameP(prefix string, t reflect.Type) string {
	k := prefixedType{prefix, t}
	if s, ok := prefixedNames[k]; ok {
		return s
	}
	s := prefix + typeName(t)
	prefixedNames[k] = s
	return s
}

func typeOf(base interface{}) string {
	if base == nil {
		return "global"
	}
	return reflect.TypeOf(base).String()
}

func (s *Sched) isSchedPoint(site string, accs []Acc) bool {
	if s.cfg.EverySite || len(accs) == 0 {
		return true
	}
	sched := s.cfg.HotSites[site]
	for _, a := range accs {
		if a.Elem != 0 {
			continue // element accesses never decide scheduling points (only HotSites do)
		}
		typ := "global"
		if a.Base != nil {
			typ = typeName(reflect.TypeOf(a.Base))
			if !s.cfg.AlwaysShared[typ] {
				// other objects become scheduling points per site (HotSites) once an object of
				// theirs is seen from two threads; promotion by type would turn every thread-local
				// clone into a scheduling point
				continue
			}
		}
		key := typ + "." + a.Field
		if a.Write {
			sched = true
			if !s.cfg.Written[key] {
				s.NewWritten[key] = true
			}
		} else if s.cfg.Written[key] {
			sched = true
		}
	}
	return sched
}

func (s *Sched) step(site string, accs []Acc) {
	t := s.me()
	s.Steps++
	sched := s.isSchedPoint(site, accs)
	if sched {
		s.yield(t, site)
	}
	s.record(t, site, accs, sched)
}

func leqEpoch(e epoch, vc []int) bool { return e.clock <= vc[e.tid] }

func (s *Sched) record(t *thread, site string, accs []Acc, sched bool) {
	for _, a := range accs {
		var k accKey
		typ := "global"
		if a.Elem == 'o' || a.Elem == 'O' {
			// an object of another package, identified by its address
			v := reflect.ValueOf(a.Base)
			if v.Kind() != reflect.Ptr || v.IsNil() {
				continue
			}
			k = accKey{v.Pointer(), "*"}
			typ = typeNameP("object ", v.Type())
		} else if a.Elem != 0 {
			// elements of a slice / map: always fully recorded, keyed by the backing array or map
			// header, so that an access through a local alias meets the accesses of the owner
			v := reflect.ValueOf(a.Base)
			if (v.Kind() != reflect.Slice && v.Kind() != reflect.Map) || v.IsNil() {
				continue
			}
			if v.Kind() == reflect.Slice && v.Cap() == 0 {
				continue
			}
			if a.Elem == 'a' {
				a.Write = v.Len() < v.Cap() // append writes into the old array only if it has room
			}
			k = accKey{v.Pointer(), "[]"}
			typ = typeNameP("elements of ", v.Type())
		} else if a.Base == nil {
			k = accKey{0, a.Field}
		} else {
			v := reflect.ValueOf(a.Base)
			if v.Kind() != reflect.Ptr || v.IsNil() {
				continue
			}
			ptr := v.Pointer()
			k = accKey{ptr, a.Field}
			typ = typeName(v.Type())
			if !s.cfg.AlwaysShared[typ] && !s.cfg.Promoted[typ] {
				// supposedly thread-local object: only track which thread owns it
				o, seen := s.owner[ptr]
				if !seen || o.tid == t.id {
					s.owner[ptr] = ownerRec{t.id, t.vc[t.id], a.Base, site}
					continue
				}
				if o.clock <= t.vc[o.tid] {
					// every access of the previous owner happens-before this one (the object was
					// handed over, e.g. through the pool): ownership moves, nothing is shared
					s.owner[ptr] = ownerRec{t.id, t.vc[t.id], a.Base, site}
					continue
				}
				// a second thread touches it: promote the type and both sites; the scenario is
				// re-explored with full recording for this type (fixpoint)
				s.NewPromoted[typ] = true
				s.NewHot[o.site] = true
				s.NewHot[site] = true
				continue
			}
		}
		h := s.hist[k]
		if h == nil {
			h = &accHist{base: a.Base, reads: map[int]epoch{}, typ: typ}
			s.hist[k] = h
		}
		me := epoch{t.id, t.vc[t.id], site, sched}
		report := func(o epoch, ow bool) {
			s.Races = append(s.Races, Race{Key: h.typ + "." + a.Field, SiteA: o.site, SiteB: site, TidA: o.tid, TidB: t.id, WriteA: ow, WriteB: a.Write})
		}
		cross := func(o epoch) {
			if a.Elem != 0 {
				return // arrays recycled through pools would turn every builder site hot
			}
			if !o.sched {
				s.NewHot[o.site] = true
			}
			if !sched {
				s.NewHot[site] = true
			}
		}
		if w := h.lastWrite; w != nil && w.tid != t.id {
			cross(*w)
			if !leqEpoch(*w, t.vc) {
				report(*w, true)
			}
		}
		if a.Write {
			for tid, r := range h.reads {
				if tid != t.id {
					cross(r)
					if !leqEpoch(r, t.vc) {
						report(r, false)
					}
				}
			}
			h.lastWrite = &me
			for tid := range h.reads {
				delete(h.reads, tid)
			}
		} else {
			h.reads[t.id] = me
		}
	}
	t.vc[t.id]++
}

func join(a, b []int) {
	for i := range a {
		if i < len(b) && b[i] > a[i] {
			a[i] = b[i]
		}
	}
}

func (s *Sched) lock(m *sync.Mutex) {
	t := s.me()
	s.yield(t, "mutex.Lock")
	ls := s.locks[m]
	if ls == nil {
		ls = &lockState{owner: -1, vc: make([]int, len(s.ths))}
		s.locks[m] = ls
	}
	for ls.owner != -1 {
		if ls.owner == t.id && s.Deadlock == "" {
			s.Deadlock = fmt.Sprintf("self-deadlock: T%d locks a mutex it already holds", t.id)
		}
		t.blockedOn = m
		s.yield(t, "mutex.Lock(blocked)")
	}
	t.blockedOn = nil
	ls.owner = t.id
	join(t.vc, ls.vc)
	t.vc[t.id]++
}

func (s *Sched) tryLock(m *sync.Mutex) bool {
	t := s.me()
	s.yield(t, "mutex.TryLock")
	ls := s.locks[m]
	if ls == nil {
		ls = &lockState{owner: -1, vc: make([]int, len(s.ths))}
		s.locks[m] = ls
	}
	if ls.owner != -1 {
		return false
	}
	ls.owner = t.id
	join(t.vc, ls.vc)
	t.vc[t.id]++
	return true
}

func (s *Sched) unlock(m *sync.Mutex) {
	t := s.me()
	s.yield(t, "mutex.Unlock")
	ls := s.locks[m]
	if ls == nil || ls.owner == -1 {
		panic("sync: unlock of unlocked mutex")
	}
	ls.owner = -1
	copy(ls.vc, t.vc)
	t.vc[t.id]++
}

func (s *Sched) onceDo(o *sync.Once, f func()) {
	t := s.me()
	if os := s.onces[o]; os != nil && os.done {
		// a completed Once is an immutable flag: Do commutes with every other step, so it is
		// not a scheduling point (only the happens-before edge is recorded)
		join(t.vc, os.vc)
		t.vc[t.id]++
		return
	}
	s.yield(t, "once.Do")
	os := s.onces[o]
	if os == nil {
		os = &onceState{runner: -1, vc: make([]int, len(s.ths))}
		s.onces[o] = os
	}
	for !os.done && os.runner != -1 {
		if os.runner == t.id && s.Deadlock == "" {
			s.Deadlock = fmt.Sprintf("self-deadlock: T%d re-enters a sync.Once it is running", t.id)
		}
		t.blockedOn = o
		s.yield(t, "once.Do(blocked)")
	}
	t.blockedOn = nil
	if os.done {
		join(t.vc, os.vc)
		t.vc[t.id]++
		return
	}
	os.runner = t.id
	// the real Once is used so that code outside an exploration sees it done as well
	o.Do(f)
	os.done, os.runner = true, -1
	copy(os.vc, t.vc)
	t.vc[t.id]++
}

func (s *Sched) poolGet(p *sync.Pool) interface{} {
	t := s.me()
	s.yield(t, "pool.Get")
	l := s.pools[p]
	if len(l) > 0 && !s.cfg.PoolFresh {
		e := l[len(l)-1]
		s.pools[p] = l[:len(l)-1]
		join(t.vc, e.vc)
		t.vc[t.id]++
		return e.x
	}
	t.vc[t.id]++
	if p.New != nil {
		return p.New()
	}
	return nil
}

func (s *Sched) poolPut(p *sync.Pool, x interface{}) {
	t := s.me()
	s.yield(t, "pool.Put")
	s.pools[p] = append(s.pools[p], pooled{x, append([]int(nil), t.vc...)})
	t.vc[t.id]++
}

func (s *Sched) enabled(t *thread) bool {
	if t.done {
		return false
	}
	switch b := t.blockedOn.(type) {
	case *sync.Mutex:
		return s.locks[b].owner == -1
	case *sync.Once:
		os := s.onces[b]
		return os.done || os.runner == -1
	}
	return true
}

// Run executes bodies under the scheduler, replaying prefix and then always taking choice 0.
// A choice in prefix that is out of range is a replay divergence (panic).
func Run(bodies []func(), prefix []int, cfg *Config) *Sched {
	if cfg == nil {
		cfg = &Config{}
	}
	s := &Sched{back: make(chan struct{}), prefix: prefix, cfg: cfg,
		locks: map[*sync.Mutex]*lockState{}, onces: map[*sync.Once]*onceState{}, pools: map[*sync.Pool][]pooled{},
		hist: map[accKey]*accHist{}, NewHot: map[string]bool{}, NewWritten: map[string]bool{}, NewPromoted: map[string]bool{}, owner: map[uintptr]ownerRec{}}
	for i := range bodies {
		t := &thread{id: i, wake: make(chan struct{}), vc: make([]int, len(bodies))}
		t.vc[i] = 1
		s.ths = append(s.ths, t)
	}
	Active = s
	for i, b := range bodies {
		i, b := i, b
		go func() {
			t := s.ths[i]
			<-t.wake
			defer func() {
				if r := recover(); r != nil {
					if _, isAbort := r.(abortT); !isAbort {
						t.panicVal = r
						t.panicSite = t.site
					}
				}
				t.done = true
				s.back <- struct{}{}
			}()
			if s.aborting {
				return
			}
			b()
		}()
	}
	running := -1
	for {
		var en []int
		runEn := running >= 0 && s.enabled(s.ths[running])
		if runEn {
			en = append(en, running)
		}
		for _, t := range s.ths {
			if t.id != running && s.enabled(t) {
				en = append(en, t.id)
			}
		}
		if len(en) == 0 {
			var stuck []string
			for _, t := range s.ths {
				if !t.done {
					stuck = append(stuck, fmt.Sprintf("T%d@%s", t.id, t.site))
				}
			}
			if len(stuck) > 0 {
				if s.Deadlock == "" {
					s.Deadlock = "deadlock: no enabled thread; blocked: " + strings.Join(stuck, ", ")
				}
				// release the parked goroutines
				s.aborting = true
				for _, t := range s.ths {
					if !t.done {
						t.wake <- struct{}{}
						<-s.back
					}
				}
			}
			break
		}
		choice := 0
		if len(s.Points) < len(prefix) {
			choice = prefix[len(s.Points)]
			if choice >= len(en) {
				Active = nil
				panic(fmt.Sprintf("replay divergence at point %d: choice %d of %d enabled", len(s.Points), choice, len(en)))
			}
		}
		s.Points = append(s.Points, Point{Enabled: en, Chosen: choice, RunningEnabled: runEn})
		next := en[choice]
		t := s.ths[next]
		s.Trace = append(s.Trace, fmt.Sprintf("T%d@%s", next, t.site))
		running = next
		s.cur = next
		t.wake <- struct{}{}
		<-s.back
	}
	Active = nil
	return s
}

type ThreadPanic struct {
	Tid  int
	Val  interface{}
	Site string
}

func (s *Sched) Panics() []ThreadPanic {
	var out []ThreadPanic
	for _, t := range s.ths {
		if t.panicVal != nil {
			out = append(out, ThreadPanic{t.id, t.panicVal, t.panicSite})
		}
	}
	return out
}

// Choices returns the schedule of this execution (replayable as a prefix).
func (s *Sched) Choices() []int {
	out := make([]int, len(s.Points))
	for i, p := range s.Points {
		out[i] = p.Chosen
	}
	return out
}

// Preemptions counts the switches away from a thread that was still enabled.
func (s *Sched) Preemptions() int {
	n := 0
	for _, p := range s.Points {
		if p.RunningEnabled && p.Chosen != 0 {
			n++
		}
	}
	return n
}

// DistinctRaces de-duplicates by (key, sites).
func (s *Sched) DistinctRaces() []Race {
	seen := map[string]bool{}
	var out []Race
	for _, r := range s.Races {
		k := r.Key + "|" + r.SiteA + "|" + r.SiteB
		if !seen[k] {
			seen[k] = true
			out = append(out, r)
		}
	}
	sort.Slice(out, func(i, j int) bool { return out[i].String() < out[j].String() })
	return out
}

type ExploreOpts struct {
	Bound    int
	Cfg      *Config
	MaxExecs int64            // 0 = unlimited
	Expired  func() bool      // optional deadline
	Owns     func(i int) bool // optional: which root-level subtrees (numbered in DFS order) this worker explores
}

type ExploreResult struct {
	Execs     int64
	Capped    bool
	MaxPoints int
}

// Explore runs the iterative-context-bounding DFS: replay a prefix of choices, then default
// choice 0 (keep running the current thread), and branch on every alternative whose preemption
// cost stays within the bound. check is called for every execution with its schedule.
func Explore(mk func() []func(), o ExploreOpts, check func(*Sched)) ExploreResult {
	var res ExploreResult
	rootChild := 0
	var rec func(prefix []int, depth int)
	rec = func(prefix []int, depth int) {
		if res.Capped {
			return
		}
		if (o.MaxExecs > 0 && res.Execs >= o.MaxExecs) || (o.Expired != nil && o.Expired()) {
			res.Capped = true
			return
		}
		x := Run(mk(), prefix, o.Cfg)
		res.Execs++
		if len(x.Points) > res.MaxPoints {
			res.MaxPoints = len(x.Points)
		}
		// the root execution is run by every worker (its children are partitioned); only the
		// owner evaluates it, but everybody must see it (fixpoint inputs such as NewWritten)
		x.Unowned = depth == 0 && o.Owns != nil && !o.Owns(-1)
		check(x)
		pre := 0
		for i := 0; i < len(x.Points); i++ {
			p := x.Points[i]
			if i >= len(prefix) {
				for alt := 1; alt < len(p.Enabled); alt++ {
					cost := pre
					if p.RunningEnabled {
						cost++
					}
					if cost > o.Bound {
						continue
					}
					if depth == 0 && o.Owns != nil {
						rootChild++
						if !o.Owns(rootChild - 1) {
							continue
						}
					}
					np := make([]int, i+1)
					for j := 0; j < i; j++ {
						np[j] = x.Points[j].Chosen
					}
					np[i] = alt
					rec(np, depth+1)
				}
			}
			if p.RunningEnabled && p.Chosen != 0 {
				pre++
			}
		}
	}
	rec(nil, 0)
	return res
}
