// Package verifrt is the runtime the instrumented ice package calls into. It is added to the
// ice module as a virtual package by `go build -overlay` (never committed to /repo).
//
// Outside an exploration (Active == nil) every shim falls through to the real primitive and
// Step only counts.
package verifrt

import (
	"fmt"
	"reflect"
	"sort"
	"strings"
	"sync"
	"sync/atomic"
)

type Acc struct {
	Base  interface{}
	Field string
	Write bool
	// Elem: the access is to the elements of the slice or map held in Base (identified by its
	// backing array / map header): 'r', 'w', or 'a' = append (a write iff len < cap)
	Elem byte
}

func R(base interface{}, field string) Acc { return Acc{base, field, false, 0} }
func W(base interface{}, field string) Acc { return Acc{base, field, true, 0} }

// RE / WE / AE: element accesses through any expression - a struct field or a local alias of it.
func RE(x interface{}) Acc { return Acc{x, "[]", false, 'r'} }
func WE(x interface{}) Acc { return Acc{x, "[]", true, 'w'} }
func AE(x interface{}) Acc { return Acc{x, "[]", true, 'a'} }

// RO / WO: a method call on an object of another package that is not safe for concurrent use
// (vellum readers and iterators, roaring bitmaps and their iterators, ...), identified by its
// address; WO when the method mutates the object.
func RO(x interface{}) Acc { return Acc{x, "*", false, 'o'} }
func WO(x interface{}) Acc { return Acc{x, "*", true, 'O'} }

var Steps int64

// PollHook, when non-nil, is called (outside explorations) before every `select` statement of
// the instrumented package, i.e. before every poll of a close channel (C12: the channel is closed
// at every poll index).
var PollHook func(site string)

// Step is inserted before every statement that touches possibly shared memory.
func Step(site string, accs ...Acc) {
	if s := Active; s != nil {
		s.step(site, accs)
		return
	}
	if PollHook != nil && len(accs) == 0 && strings.HasSuffix(site, "/select") {
		PollHook(site)
	}
	atomic.AddInt64(&Steps, 1)
}

// SingleThread: outside explorations, exactly one goroutine uses the instrumented package (the
// nesting sweep of C09). A mutex that is not free then can only be held by the caller itself: the
// self-deadlock is reported as a panic instead of hanging until the watchdog fires.
var SingleThread bool

func MutexLock(m *sync.Mutex) {
	if s := Active; s != nil {
		s.lock(m)
		return
	}
	if SingleThread {
		if !m.TryLock() {
			panic("deadlock: sync.Mutex.Lock on a mutex the only running goroutine already holds")
		}
		return
	}
	m.Lock()
}

func MutexUnlock(m *sync.Mutex) {
	if s := Active; s != nil {
		s.unlock(m)
		return
	}
	m.Unlock()
}

func MutexTryLock(m *sync.Mutex) bool {
	if s := Active; s != nil {
		return s.tryLock(m)
	}
	return m.TryLock()
}

func OnceDo(o *sync.Once, f func()) {
	if s := Active; s != nil {
		s.onceDo(o, f)
		return
	}
	o.Do(f)
}

func PoolGet(p *sync.Pool) interface{} {
	if s := Active; s != nil {
		return s.poolGet(p)
	}
	if DetPools {
		return detGet(p)
	}
	return p.Get()
}

func PoolPut(p *sync.Pool, x interface{}) {
	if s := Active; s != nil {
		s.poolPut(p, x)
		return
	}
	if DetPools {
		detPut(p, x)
		return
	}
	p.Put(x)
}

// ---- deterministic pools (LIFO), used under the scheduler and, when DetPools is set, also in
// sequential runs (C14 histories): "pooled or fresh" becomes an explorer choice ----

var DetPools bool

// PoolFresh, when non-nil, is asked on every Get whether to ignore the pooled object and
// return a fresh one (models the GC clearing the pool).
var PoolFresh func(site *sync.Pool) bool

var detPools = map[*sync.Pool][]interface{}{}

func detGet(p *sync.Pool) interface{} {
	l := detPools[p]
	if len(l) > 0 && (PoolFresh == nil || !PoolFresh(p)) {
		x := l[len(l)-1]
		detPools[p] = l[:len(l)-1]
		return x
	}
	if p.New != nil {
		return p.New()
	}
	return nil
}

func detPut(p *sync.Pool, x interface{}) { detPools[p] = append(detPools[p], x) }

// ResetPools empties the deterministic pools (cold start).
func ResetPools() { detPools = map[*sync.Pool][]interface{}{} }

// PoolLen reports how many recycled objects the deterministic pool holds.
func PoolLen(p *sync.Pool) int { return len(detPools[p]) }

// ---- map iteration order ----

// MapOrder, when non-nil, permutes the canonical (sorted) key order of the n keys of the map
// range at site; it must return a permutation of 0..n-1.
var MapOrder func(site string, n int) []int

var MapRanges int64

// MapKeys returns the keys of map m in canonical (sorted) order, permuted by MapOrder.
func MapKeys(m interface{}, site string) []interface{} {
	atomic.AddInt64(&MapRanges, 1)
	v := reflect.ValueOf(m)
	keys := v.MapKeys()
	sort.Slice(keys, func(i, j int) bool { return less(keys[i], keys[j]) })
	out := make([]interface{}, len(keys))
	for i, k := range keys {
		out[i] = k.Interface()
	}
	if MapOrder != nil && len(out) > 1 {
		perm := MapOrder(site, len(out))
		if len(perm) == len(out) {
			p := make([]interface{}, len(out))
			for i, j := range perm {
				p[i] = out[j]
			}
			out = p
		}
	}
	return out
}

func less(a, b reflect.Value) bool {
	switch a.Kind() {
	case reflect.String:
		return a.String() < b.String()
	case reflect.Int, reflect.Int8, reflect.Int16, reflect.Int32, reflect.Int64:
		return a.Int() < b.Int()
	case reflect.Uint, reflect.Uint8, reflect.Uint16, reflect.Uint32, reflect.Uint64:
		return a.Uint() < b.Uint()
	}
	return fmt.Sprint(a.Interface()) < fmt.Sprint(b.Interface())
}
