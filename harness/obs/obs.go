// Package obs observes a segment through the public segment.Segment API only and
// renders the result (and the model's expectation) in one canonical form.
package obs

import (
	"fmt"
	"math"
	"sort"
	"strings"

	"github.com/RoaringBitmap/roaring"
	segment "github.com/blugelabs/bluge_segment_api"

	"verifharness/model"
)

type Loc struct {
	Field   string
	P, S, E int
}

type Posting struct {
	Doc  uint64
	Freq int
	Norm float32
	Locs []Loc
}

type Term struct {
	Term      string
	DictCount uint64 // count reported by the dictionary iterator entry
	Contains  bool
	PLCount   uint64
	Postings  []Posting
}

type Obs struct {
	Count  uint64
	Fields []string
	Dicts  map[string][]Term // per field of Fields
	Stored [][]model.KV      // per doc
	DV     [][]model.KV      // per doc, reader opened on all Fields
	Stats  map[string]model.Stats
}

// Components selectable in comparisons.
const (
	CFields    = 1 << iota
	CDict      // term set, order
	CDictCount // entry counts of the dictionary iterator
	CPostings
	CStored
	CDV
	CStats
	CAll = CFields | CDict | CDictCount | CPostings | CStored | CDV | CStats
)

// Observe drives the public API. Panics propagate (callers guard them).
func Observe(seg segment.Segment) (o *Obs, err error) {
	return ObserveWith(seg, nil)
}

// ObserveWith is Observe; storedSeg, when non-nil, supplies the segment object on which the
// stored fields of document d are visited (used for the frozen reference reader, whose stored
// visit is history dependent: a fresh copy per 128-document block avoids its known defect).
func ObserveWith(seg segment.Segment, storedSeg func(d uint64) segment.Segment) (o *Obs, err error) {
	o = &Obs{Count: seg.Count(), Dicts: map[string][]Term{}, Stats: map[string]model.Stats{}}
	o.Fields = append([]string(nil), seg.Fields()...)
	for _, f := range o.Fields {
		ts, err := ObserveDict(seg, f)
		if err != nil {
			return nil, fmt.Errorf("field %q: %w", f, err)
		}
		o.Dicts[f] = ts
		cs, err := seg.CollectionStats(f)
		if err != nil {
			return nil, fmt.Errorf("stats %q: %w", f, err)
		}
		first := model.Stats{Total: cs.TotalDocumentCount(), Docs: cs.DocumentCount(), SumTF: cs.SumTotalTermFrequency()}
		// the returned object belongs to the caller, who folds other segments' statistics into it with
		// Merge: doing so must not reach anything the segment answers later questions from
		cs.Merge(cs)
		cs2, err := seg.CollectionStats(f)
		if err != nil {
			return nil, fmt.Errorf("stats %q (second call): %w", f, err)
		}
		o.Stats[f] = model.Stats{Total: cs2.TotalDocumentCount(), Docs: cs2.DocumentCount(), SumTF: cs2.SumTotalTermFrequency()}
		if o.Stats[f] != first {
			return nil, fmt.Errorf("stats %q: asked again after the caller merged into the first answer: %v, first answer %v", f, o.Stats[f], first)
		}
	}
	dvr, err := seg.DocumentValueReader(o.Fields)
	if err != nil {
		return nil, fmt.Errorf("dv reader: %w", err)
	}
	for d := uint64(0); d < o.Count; d++ {
		var kv []model.KV
		vs := seg
		if storedSeg != nil {
			vs = storedSeg(d)
		}
		err := vs.VisitStoredFields(d, func(field string, value []byte) bool {
			kv = append(kv, model.KV{F: field, V: string(value)})
			return true
		})
		if err != nil {
			return nil, fmt.Errorf("stored %d: %w", d, err)
		}
		o.Stored = append(o.Stored, kv)
		var dv []model.KV
		err = dvr.VisitDocumentValues(d, func(field string, term []byte) {
			dv = append(dv, model.KV{F: field, V: string(term)})
		})
		if err != nil {
			return nil, fmt.Errorf("dv %d: %w", d, err)
		}
		o.DV = append(o.DV, dv)
	}
	return o, nil
}

// ObserveDict enumerates a field's dictionary completely and walks every postings list.
func ObserveDict(seg segment.Segment, f string) ([]Term, error) {
	dict, err := seg.Dictionary(f)
	if err != nil {
		return nil, err
	}
	var out []Term
	it := dict.Iterator(nil, nil, nil)
	for {
		e, err := it.Next()
		if err != nil {
			return nil, fmt.Errorf("dict iter: %w", err)
		}
		if e == nil {
			break
		}
		out = append(out, Term{Term: e.Term(), DictCount: e.Count()})
	}
	for i := range out {
		t := &out[i]
		t.Contains, err = dict.Contains([]byte(t.Term))
		if err != nil {
			return nil, err
		}
		pl, err := dict.PostingsList([]byte(t.Term), nil, nil)
		if err != nil {
			return nil, fmt.Errorf("postings list %q: %w", t.Term, err)
		}
		t.PLCount = pl.Count()
		t.Postings, err = WalkAll(pl)
		if err != nil {
			return nil, fmt.Errorf("postings %q: %w", t.Term, err)
		}
		if err := navCheck(dict, t); err != nil {
			return nil, fmt.Errorf("postings %q: %w", t.Term, err)
		}
	}
	// a well-behaved caller closes what it opened; nothing it closes may be shared with later callers
	if err := it.Close(); err != nil {
		return nil, fmt.Errorf("dictionary iterator Close: %w", err)
	}
	if err := dict.Close(); err != nil {
		return nil, fmt.Errorf("dictionary Close: %w", err)
	}
	return out, nil
}

// navCheck cross-checks the full walk against the two ways of SKIPPING postings, which rely on
// the per-posting length prefixes of the freq/norm and location streams rather than on decoding
// every entry: (1) the list opened with the first document excluded must walk as postings[1:];
// (2) a fresh iterator advanced straight to the k-th document must deliver exactly postings[k]
// (k = 1, middle, last). A disagreement is reported as an observation error.
func navCheck(dict segment.Dictionary, t *Term) error {
	n := len(t.Postings)
	if n < 2 {
		return nil
	}
	ex := roaring.BitmapOf(uint32(t.Postings[0].Doc))
	pl, err := dict.PostingsList([]byte(t.Term), ex, nil)
	if err != nil {
		return fmt.Errorf("navigation: postings list with exclusion: %w", err)
	}
	rest, err := WalkAll(pl)
	if err != nil {
		return fmt.Errorf("navigation: walk with the first document excluded: %w", err)
	}
	if fmt.Sprint(rest) != fmt.Sprint(t.Postings[1:]) {
		return fmt.Errorf("navigation: with the first document excluded the walk differs from the tail of the full walk: got %v want %v", clip(rest), clip(t.Postings[1:]))
	}
	pl, err = dict.PostingsList([]byte(t.Term), nil, nil)
	if err != nil {
		return err
	}
	seen := map[int]bool{}
	for _, k := range []int{1, n / 2, n - 1} {
		if k < 1 || seen[k] {
			continue
		}
		seen[k] = true
		it, err := pl.Iterator(true, true, true, nil)
		if err != nil {
			return err
		}
		p, err := it.Advance(t.Postings[k].Doc)
		if err != nil {
			return fmt.Errorf("navigation: Advance(%d): %w", t.Postings[k].Doc, err)
		}
		if p == nil {
			return fmt.Errorf("navigation: Advance(%d) on a fresh iterator returned nothing, the full walk has %v", t.Postings[k].Doc, t.Postings[k])
		}
		if got := CopyPosting(p); fmt.Sprint(got) != fmt.Sprint(t.Postings[k]) {
			return fmt.Errorf("navigation: Advance(%d) on a fresh iterator: got %v, the full walk has %v", t.Postings[k].Doc, got, t.Postings[k])
		}
	}
	return nil
}

func clip(p []Posting) []Posting {
	if len(p) > 4 {
		return p[:4]
	}
	return p
}

func CopyPosting(p segment.Posting) Posting {
	r := Posting{Doc: p.Number(), Freq: p.Frequency(), Norm: float32(p.Norm())}
	for _, l := range p.Locations() {
		r.Locs = append(r.Locs, Loc{l.Field(), l.Pos(), l.Start(), l.End()})
	}
	return r
}

// WalkAll walks a postings list with Next() requesting everything.
func WalkAll(pl segment.PostingsList) ([]Posting, error) {
	it, err := pl.Iterator(true, true, true, nil)
	if err != nil {
		return nil, err
	}
	var out []Posting
	for {
		p, err := it.Next()
		if err != nil {
			return nil, err
		}
		if p == nil {
			if err := it.Close(); err != nil {
				return nil, fmt.Errorf("postings iterator Close: %w", err)
			}
			return out, nil
		}
		out = append(out, CopyPosting(p))
		if len(out) > 1<<22 {
			return nil, fmt.Errorf("postings iterator does not terminate")
		}
	}
}

// Expected renders the model's expectation in the same form.
func Expected(s *model.LSeg) *Obs {
	o := &Obs{Count: uint64(len(s.Docs)), Fields: append([]string(nil), s.Fields...),
		Dicts: map[string][]Term{}, Stats: map[string]model.Stats{}}
	for _, f := range s.Fields {
		var ts []Term
		for _, t := range s.Terms(f) {
			e := Term{Term: t, Contains: true}
			for i, d := range s.Docs {
				if lf := d.Fields[f]; lf != nil {
					if p, ok := lf.Terms[t]; ok {
						po := Posting{Doc: uint64(i), Freq: p.Freq, Norm: p.Norm}
						for _, l := range p.Locs {
							po.Locs = append(po.Locs, Loc{l.Field, l.P, l.S, l.E})
						}
						e.Postings = append(e.Postings, po)
					}
				}
			}
			e.DictCount = uint64(len(e.Postings))
			e.PLCount = e.DictCount
			ts = append(ts, e)
		}
		o.Dicts[f] = ts
		o.Stats[f] = s.Stats[f]
	}
	for i := range s.Docs {
		o.Stored = append(o.Stored, s.StoredOf(i))
		var dv []model.KV
		for _, f := range s.Fields {
			for _, t := range s.DocValues(i, f) {
				dv = append(dv, model.KV{F: f, V: t})
			}
		}
		o.DV = append(o.DV, dv)
	}
	return o
}

func normEq(a, b float32) bool { return math.Float32bits(a) == math.Float32bits(b) }

func postingEq(a, b Posting) bool {
	if a.Doc != b.Doc || a.Freq != b.Freq || !normEq(a.Norm, b.Norm) || len(a.Locs) != len(b.Locs) {
		return false
	}
	for i := range a.Locs {
		if a.Locs[i] != b.Locs[i] {
			return false
		}
	}
	return true
}

func kvEq(a, b []model.KV) bool {
	if len(a) != len(b) {
		return false
	}
	for i := range a {
		if a[i] != b[i] {
			return false
		}
	}
	return true
}

// Diff names the first differing component between got and want restricted to comps; "" if equal.
func Diff(got, want *Obs, comps int) string {
	if got.Count != want.Count {
		return fmt.Sprintf("count: got %d want %d", got.Count, want.Count)
	}
	if comps&CFields != 0 {
		if strings.Join(got.Fields, "\x01") != strings.Join(want.Fields, "\x01") {
			return fmt.Sprintf("fields: got %q want %q", got.Fields, want.Fields)
		}
	}
	// fields to compare dictionaries on: the union (a field missing from one side has an empty dictionary)
	fset := map[string]bool{}
	for _, f := range got.Fields {
		fset[f] = true
	}
	for _, f := range want.Fields {
		fset[f] = true
	}
	var fs []string
	for f := range fset {
		fs = append(fs, f)
	}
	sort.Strings(fs)
	for _, f := range fs {
		g, w := got.Dicts[f], want.Dicts[f]
		if comps&(CDict|CPostings|CDictCount) != 0 {
			if comps&CDict != 0 || comps&CPostings != 0 {
				if len(g) != len(w) {
					return fmt.Sprintf("dict %q: got terms %q want %q", f, termNames(g), termNames(w))
				}
			}
			for i := range g {
				if i >= len(w) {
					break
				}
				if g[i].Term != w[i].Term {
					return fmt.Sprintf("dict %q: got terms %q want %q", f, termNames(g), termNames(w))
				}
				if comps&CDict != 0 && g[i].Contains != w[i].Contains {
					return fmt.Sprintf("dict %q term %q: Contains got %v want %v", f, g[i].Term, g[i].Contains, w[i].Contains)
				}
				if comps&CDictCount != 0 && g[i].DictCount != w[i].DictCount {
					return fmt.Sprintf("dict %q term %q: entry count got %d want %d", f, g[i].Term, g[i].DictCount, w[i].DictCount)
				}
				if comps&CPostings != 0 {
					if g[i].PLCount != w[i].PLCount {
						return fmt.Sprintf("postings %q/%q: Count got %d want %d", f, g[i].Term, g[i].PLCount, w[i].PLCount)
					}
					if len(g[i].Postings) != len(w[i].Postings) {
						return fmt.Sprintf("postings %q/%q: got %v want %v", f, g[i].Term, g[i].Postings, w[i].Postings)
					}
					for j := range g[i].Postings {
						if !postingEq(g[i].Postings[j], w[i].Postings[j]) {
							return fmt.Sprintf("postings %q/%q #%d: got %+v want %+v", f, g[i].Term, j, g[i].Postings[j], w[i].Postings[j])
						}
					}
				}
			}
		}
		if comps&CStats != 0 {
			if got.Stats[f] != want.Stats[f] {
				return fmt.Sprintf("stats %q: got %+v want %+v", f, got.Stats[f], want.Stats[f])
			}
		}
	}
	if comps&CStored != 0 {
		for d := range want.Stored {
			if !kvEq(got.Stored[d], want.Stored[d]) {
				return fmt.Sprintf("stored doc %d: got %q want %q", d, got.Stored[d], want.Stored[d])
			}
		}
	}
	if comps&CDV != 0 {
		for d := range want.DV {
			if !kvEq(got.DV[d], want.DV[d]) {
				return fmt.Sprintf("docvalues doc %d: got %q want %q", d, got.DV[d], want.DV[d])
			}
		}
	}
	return ""
}

func termNames(ts []Term) []string {
	out := make([]string, len(ts))
	for i, t := range ts {
		out[i] = t.Term
	}
	return out
}

// String is a canonical rendering (hashable).
func (o *Obs) String() string {
	var b strings.Builder
	fmt.Fprintf(&b, "n=%d fields=%q\n", o.Count, o.Fields)
	for _, f := range o.Fields {
		fmt.Fprintf(&b, "F %q stats=%v\n", f, o.Stats[f])
		for _, t := range o.Dicts[f] {
			fmt.Fprintf(&b, " T %q dc=%d c=%v plc=%d:", t.Term, t.DictCount, t.Contains, t.PLCount)
			for _, p := range t.Postings {
				fmt.Fprintf(&b, " (%d f%d n%08x", p.Doc, p.Freq, math.Float32bits(p.Norm))
				for _, l := range p.Locs {
					fmt.Fprintf(&b, " %s:%d:%d:%d", l.Field, l.P, l.S, l.E)
				}
				b.WriteString(")")
			}
			b.WriteString("\n")
		}
	}
	for d := range o.Stored {
		fmt.Fprintf(&b, "D%d stored=%q dv=%q\n", d, o.Stored[d], o.DV[d])
	}
	return b.String()
}
